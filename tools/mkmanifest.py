#!/usr/bin/env python3
"""Regenerates /verif/MANIFEST.json from the table below + which props/*.py exist."""
import json, os
V = os.path.dirname(os.path.dirname(os.path.abspath(__file__)))

SYMRUN = "symbolic execution of the real code on z3-term proxies (decision-prefix replay); one SMT validity query per obligation; counterexamples replayed natively"
NOTE = ("numbers are exact reals/integers (no IEEE-754 rounding); z3 trusted; C-level library code replaced by the contract "
        "stubs listed in evidence.coverage.stubs; bounds in evidence.coverage.bounds")

CHECKS = {
 "C01": ("bounded symbolic model checking of Stream operator dunders / elementwise wrappers on uninterpreted elements: routing of every element decided by EUF queries", SYMRUN + " (EUF)"),
 "C02": ("bounded symbolic model checking of read counts: number of outputs requested / sizes / hops symbolic, source is a counting iterator", SYMRUN + " (LIA/EUF)"),
 "C03": ("bounded symbolic model checking of Stream method histories: operation kinds and counts are solver-split symbolic integers, list model oracle", SYMRUN + " (LIA/EUF)"),
 "C04": ("bounded symbolic model checking of the real generated filter code: all coefficient/sample/memory values symbolic reals, shapes enumerated within stated bounds", SYMRUN + " (QF_NRA)"),
 "C05": ("bounded symbolic model checking of filter algebra: signal-level and rational-function-level identities over symbolic coefficients and samples", SYMRUN + " (QF_NRA)"),
 "C06": ("bounded symbolic model checking of time-varying filters: every value of every coefficient stream symbolic, pull counts observed", SYMRUN + " (QF_NRA)"),
 "C07": ("bounded symbolic model checking of Poly ring/evaluation/calculus laws over symbolic coefficients and points", SYMRUN + " (QF_NRA)"),
 "C08": ("bounded symbolic model checking of blocks/zero_pad: two independent encodings (CrossHair on symbolic-length lists; symrun on uninterpreted items with solver-split size/hop/length)", "CrossHair symbolic execution (z3) + " + SYMRUN),
 "C09": ("bounded symbolic model checking of overlap-add / STFT wrapper over symbolic blocks and windows", SYMRUN + " (QF_NRA/LRA)"),
 "C10": ("bounded symbolic model checking of Levinson-Durbin / LPC normal equations over symbolic autocorrelations and data", SYMRUN + " (QF_NRA)"),
 "C11": ("bounded symbolic model checking of PARCOR step-down and the stability verdict against symbolic pole locations", SYMRUN + " (QF_NRA)"),
 "C12": ("bounded symbolic model checking of freq_response / dft as polynomial identities in (cos w, sin w) with c^2+s^2=1", SYMRUN + " (QF_NRA, trig contract stub)"),
 "C13": ("bounded symbolic model checking of filter design contracts for every cut-off in (0,pi) via trig/exp/sqrt contract stubs", SYMRUN + " (QF_NRA, transcendental contract stubs)"),
 "C14": ("bounded symbolic model checking of window formulas with exact rational-multiple-of-pi trig stub", SYMRUN + " (QF_NRA, exact trig stub)"),
 "C15": ("inductive-step symbolic model checking of MultiKeyDict from an arbitrary valid representation with symbolic keys/values (SymDict), bounded histories for StrategyDict", SYMRUN + " (LIA)"),
 "C16": ("bounded symbolic model checking of the mixer: deltas, items and history kinds symbolic", SYMRUN + " (LRA)"),
 "C17": ("bounded model checking of a transition system translated from lazy_io.py's AST: the thread schedule, one backend failure point per player and the arrival of a second closing thread are symbolic; the content half (what one player hands to the device) is decided by symbolic execution of the real AudioThread.run on symbolic audio", "AST-to-transition-system translation + z3 BMC (QF_BV) with symbolic schedule / fault point, replayed on the real classes; plus " + SYMRUN + " (LIA) for the chunk contents"),
 "C18": ("bounded symbolic model checking of PCM codecs over symbolic bytes with contract stubs for struct/array/wave", SYMRUN + " (LIA)"),
 "C19": ("bounded symbolic model checking of generators: durations, steps, table entries symbolic", SYMRUN + " (mixed LIA/LRA)"),
 "C20": ("bounded symbolic model checking of sample-wise analysis tools over symbolic samples and parameters", SYMRUN + " (LRA/NRA)"),
}

NOT_BUILT = "check not built yet in this round (planned, see DESIGN.md §3)"
NA = {}      # property -> reason (genuinely not applicable)

def main():
  checks, na = [], []
  for pid in sorted(CHECKS):
    if pid in NA:
      na.append({"property_id": pid, "reason": NA[pid]}); continue
    if not os.path.exists(os.path.join(V, "props", pid + ".py")):
      na.append({"property_id": pid, "reason": NOT_BUILT}); continue
    text, tech = CHECKS[pid]
    checks.append({
      "property_id": pid,
      "quick_cmd": "./check %s --tier quick" % pid,
      "thorough_cmd": "./check %s --tier thorough" % pid,
      "evidence_file": "evidence/%s.json" % pid,
      "replay_cmd_template": "./check %s --replay {path}" % pid,
      "engine": "pyts" if pid == "C17" else "symrun",
      "level_claimed": {"category": "model_checking", "text": text, "design_ref": "DESIGN.md §3 " + pid},
      "level_note": NOTE,
      "technique": tech})
  m = {"version": 1, "setup_cmd": "./setup.sh",
       "hooks": {"guard": "AUDIOLAZY_VERIF",
                 "enable": "no source hooks: checks import /repo's working tree directly (sys.path[0]=/repo), nothing to enable",
                 "baseline_off_cmd": "cd /repo && /venv/bin/python -m pytest -q -p no:cacheprovider --timeout=900 --continue-on-collection-errors",
                 "source_commits": [], "add_only": True},
       "engines": [
         {"name": "symrun", "path": "symrun/", "serves_properties": [c["property_id"] for c in checks if c["engine"] == "symrun"] + ["C17"],
          "kind_free_text": "proxy-based symbolic execution of the real Python code with z3 (decision-prefix replay); every obligation a solver query; counterexamples replayed natively before any VIOLATION"},
         {"name": "pyts", "path": "pyts/", "serves_properties": ["C17"],
          "kind_free_text": "AST of lazy_io.py -> guarded-command transition system (Lipton-reduced) -> z3 QF_BV bounded model checking with a symbolic schedule; counterexample and sample schedules replayed on the real classes under a line-level scheduler"},
         {"name": "crosshair", "path": "props/ch_blocks.py", "serves_properties": ["C08"],
          "kind_free_text": "CrossHair (crosshair-tool 0.0.110) symbolic execution of PEP316 contracts over the real blocks/zero_pad; second, independent encoding of C08"},
       ],
       "checks": checks,
       "notes": "All checks exit 0 = held within bounds, 1 = replayed VIOLATION, 2 = inconclusive/engine error (never reported as a pass). known_findings.json lists genuine defects (fixed ones suppress nothing).",
       "not_applicable": na}
  with open(os.path.join(V, "MANIFEST.json"), "w") as f:
    json.dump(m, f, indent=1)
  print("checks:", [c["property_id"] for c in checks], "n/a:", [x["property_id"] for x in na])

main()
