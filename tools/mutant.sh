#!/bin/bash
# tools/mutant.sh verify <Cxx> <A|B>       : confirm a sub-agent's mutant (demo fails with it, passes without, tests unchanged)
# tools/mutant.sh check  <dir> <pid> [...] : run ./check <pid> against a scratch worktree with <dir>/patch.diff applied
# Scratch worktree: /tmp/mut/wt_<tag>, created from /repo HEAD and removed afterwards.
set -u
cmd=$1; shift
mk() { ( flock 9; rm -rf "$1"; git -C /repo worktree prune; git -C /repo worktree add -q --detach "$1" HEAD ) 9>/tmp/mut/.lock; }
rmwt() { ( flock 9; git -C /repo worktree remove --force "$1" 2>/dev/null; rm -rf "$1" ) 9>/tmp/mut/.lock; }
if [ "$cmd" = verify ]; then
  P=$1; X=$2; R=${MUTROOT:-/tmp/mut}; D=$R/out_$P/$X; W=/tmp/mut/wt_v_${P}_$X
  mk $W
  cp $D/demo.py $W/demo.py
  (cd $W && /venv/bin/python -W ignore demo.py >$D/clean.log 2>&1); c=$?
  git -C $W apply $D/patch.diff || { echo "$P $X: PATCH DOES NOT APPLY"; rmwt $W; exit 1; }
  (cd $W && /venv/bin/python -W ignore demo.py >$D/mut.log 2>&1); m=$?
  rm -f $W/demo.py
  t=$(python3 /verif/tools/baseline_check.py $W 2>&1 | head -1)
  echo "$P $X: demo clean rc=$c mutant rc=$m | $t"
  rmwt $W
elif [ "$cmd" = check ]; then
  D=$(cd "$1" && pwd); shift; tag=$(echo $D | tr '/' '_'); W=/tmp/mut/wt_c_$tag
  mk $W
  git -C $W apply $D/patch.diff || { echo "PATCH DOES NOT APPLY"; rmwt $W; exit 1; }
  for pid in "$@"; do
    echo "== $D vs $pid"
    (cd /verif && VERIF_REPO=$W ./check $pid --no-evidence 2>&1 | grep -E "VIOLATION|KNOWN|ENGINE|INCONCL|quick:|clause" | head -8)
  done
  rmwt $W
fi
