#!/bin/bash
# tools/mutant_matrix.sh <id> [<id> ...]   e.g. C05C C05D : runs the property's quick check against each seeded change
cd /verif
for id in "$@"; do
  P=${id:0:3}
  out=$(tools/mutant.sh check seeded/$id $P 2>&1)
  if echo "$out" | grep -q "^VIOLATION"; then v="CAUGHT  $(echo "$out" | grep -m1 'clause=' | sed 's/.*clause=\([^ ]*\).*/\1/')"
  elif echo "$out" | grep -q "PATCH DOES NOT APPLY"; then v="PATCH-DOES-NOT-APPLY"
  elif echo "$out" | grep -qE "ENGINE-ERROR|INCONCLUSIVE"; then v="EXIT2   $(echo "$out" | grep -m1 -A1 -E 'ENGINE-ERROR|INCONCLUSIVE' | tail -1 | cut -c1-160)"
  else v="MISSED"; fi
  echo "$id $v"
done
