#!/usr/bin/env python3
"""Run the repository's pinned test command and compare the passing set with BASELINE.json."""
import json, subprocess, sys, tempfile, os
import xml.etree.ElementTree as ET
repo = sys.argv[1] if len(sys.argv) > 1 else "/repo"
base = json.load(open("/root/.vp/BASELINE.json"))
fd, path = tempfile.mkstemp(suffix=".xml"); os.close(fd)
env = dict(os.environ); env.pop("AUDIOLAZY_VERIF", None)
subprocess.run(["/venv/bin/python", "-m", "pytest", "-ra", "-q", "-p", "no:cacheprovider", "--timeout=900",
                "--continue-on-collection-errors", "--junitxml=" + path], cwd=repo, env=env,
               stdout=subprocess.DEVNULL, stderr=subprocess.DEVNULL)
passed = set()
for tc in ET.parse(path).getroot().iter("testcase"):
  if not any(ch.tag in ("failure", "error", "skipped") for ch in tc):
    passed.add("%s::%s" % (tc.get("classname"), tc.get("name")))
os.unlink(path)
want = set(base["stable_pass"])
missing = sorted(want - passed)
print("baseline pass=%d now pass=%d missing=%d newly_passing=%d" % (len(want), len(passed), len(missing), len(passed - want)))
for m in missing[:20]: print("  MISSING", m)
sys.exit(1 if missing else 0)
