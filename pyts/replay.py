"""Replays schedules produced by the model checker on the REAL AudioIO / AudioThread classes.

A fake pyaudio/_portaudio backend records the device-visible events; every thread that runs code of lazy_io.py is
stopped before each source line (sys.settrace / threading.settrace 'line' events) and only moves when the scheduler
grants it a step, so the interleaving is the one the solver chose.  The resulting event trace is compared with the
model's, or - for a deadlock counterexample - the run must really end with close() blocked.

Run as a separate process (blocked daemon threads are abandoned with os._exit).
"""
import json
import os
import sys
import threading
import time
import types


def install_fake_backend(log, faults=()):
  class FakeStream:
    def __init__(self, pa, idx):
      self._stream = ("dev", idx); self.pa = pa; self.idx = idx; self.open = True
    def stop_stream(self): log.append(["stop_stream", self.idx])
    def start_stream(self): log.append(["start_stream", self.idx])
    def close(self):
      log.append(["close", self.idx]); self.open = False
      self.pa._streams.discard(self)
  class PyAudio:
    def __init__(self):
      self._streams = set(); self.n = 0
    def open(self, **kw):
      s = FakeStream(self, self.n); self.n += 1
      self._streams.add(s); log.append(["open"])
      return s
    def terminate(self): log.append(["terminate"])
    def get_host_api_count(self): return 0
  pa = types.ModuleType("pyaudio"); pa.PyAudio = PyAudio
  po = types.ModuleType("_portaudio")
  counts = {}
  def write_stream(st, chunk, size, flag=False):
    idx = st[1]
    n = counts.get(idx, 0)
    if idx < len(faults) and faults[idx] is not None and faults[idx] == n:
      log.append(["write-fails", idx])
      raise IOError("backend failure injected at chunk %d of stream %d" % (n, idx))
    counts[idx] = n + 1
    log.append(["write", idx, bytes(chunk)])
  po.write_stream = write_stream
  sys.modules["pyaudio"] = pa
  sys.modules["_portaudio"] = po


class Gate:
  """One per real thread: the thread parks before every traced line."""
  def __init__(self, name):
    self.name = name
    self.cv = threading.Condition()
    self.pending = None          # line number the thread is about to execute (parked)
    self.grants = 0
    self.finished = False
    self.free = False            # when True the thread is no longer gated


class Scheduler:
  def __init__(self, filename, methods_lines):
    self.filename = filename
    self.lines = methods_lines      # set of line numbers that belong to the modelled methods
    self.gates = {}
    self.lock = threading.Lock()

  def gate_of(self, ident, name=None):
    with self.lock:
      if ident not in self.gates: self.gates[ident] = Gate(name or str(ident))
      return self.gates[ident]

  def tracer(self, frame, event, arg):
    if frame.f_code.co_filename != self.filename: return None
    if event == "call": return self.tracer
    if event == "line" and frame.f_lineno in self.lines:
      g = self.gates.get(threading.get_ident())
      if g is not None and not g.free:
        with g.cv:
          g.pending = frame.f_lineno
          g.cv.notify_all()
          while g.grants == 0 and not g.free:
            g.cv.wait()
          if not g.free: g.grants -= 1
          g.pending = None
    return self.tracer

  def wait_parked(self, g, timeout):
    """-> 'parked' | 'finished' | 'blocked'"""
    end = time.time() + timeout
    with g.cv:
      while True:
        if g.finished: return "finished"
        if g.pending is not None and g.grants == 0: return "parked"
        left = end - time.time()
        if left <= 0: return "blocked"
        g.cv.wait(min(left, 0.05))

  def grant(self, g):
    self.trace = getattr(self, "trace", [])
    self.trace.append((g.name, g.pending))
    with g.cv:
      g.grants += 1
      g.pending = None
      g.cv.notify_all()

  def release_all(self):
    for g in list(self.gates.values()):
      with g.cv:
        g.free = True
        g.cv.notify_all()


def method_lines(path, names):
  import ast
  tree = ast.parse(open(path).read())
  lines = set()
  for c in tree.body:
    if isinstance(c, ast.ClassDef) and c.name in names:
      for f in c.body:
        if isinstance(f, ast.FunctionDef) and f.name in names[c.name]:
          for n in ast.walk(f):
            if hasattr(n, "lineno") and isinstance(n, ast.stmt): lines.add(n.lineno)
          lines.discard(f.lineno)
  return lines


def replay(repo, run, step_timeout=1.0):
  """run: dict(wait, L, choices, targets, steps=[[th, lab, [[line, what], ...]], ...], P, chunk_size)
  -> dict(status, events, detail)"""
  sys.path.insert(0, repo)
  log = []
  install_fake_backend(log, run.get("faults") or ())
  threading.excepthook = lambda args: None          # an injected backend failure ends its player thread quietly
  import audiolazy.lazy_io as lio
  path = lio.__file__
  # threads park only before lines that are statements of the model (anything else - `try:`, `return x`, `break` -
  # runs through, exactly like the model treats it)
  lines = set(run["model_lines"])
  sch = Scheduler(path, lines)
  P = run["P"]; CH = run.get("chunk_size", 2)
  players = [None] * P
  result = {"raised_after_close": None, "main_exc": None}
  orig_run = lio.AudioThread.run
  def traced_run(self):
    g = sch.gate_of(threading.get_ident(), "player%d" % self._vidx)
    sys.settrace(sch.tracer)
    try:
      orig_run(self)
    finally:
      sys.settrace(None)
      with g.cv:
        g.finished = True; g.cv.notify_all()
  lio.AudioThread.run = traced_run
  orig_init = lio.AudioThread.__init__
  counter = [0]
  def init(self, *a, **kw):
    orig_init(self, *a, **kw)
    self._vidx = counter[0]; counter[0] += 1
    if self._vidx < P: players[self._vidx] = self
  lio.AudioThread.__init__ = init
  calls = []
  orig_stop, orig_join = lio.AudioThread.stop, lio.AudioThread.join
  def stop_(self):
    calls.append(["stop", getattr(self, "_vidx", -1)]); return orig_stop(self)
  def join_(self, *a, **k):
    calls.append(["join", getattr(self, "_vidx", -1)]); return orig_join(self, *a, **k)
  lio.AudioThread.stop = stop_; lio.AudioThread.join = join_

  mgr_box = {}
  mgr_ready = threading.Event()
  def closer2_script():
    """a second thread closing the same manager; what it finds when ITS close() returns is recorded"""
    mgr_ready.wait(10)
    g = sch.gate_of(threading.get_ident(), "closer2")
    sys.settrace(sch.tracer)
    try:
      m2 = mgr_box["mgr"]
      m2.close()
      result["c2_post"] = {"terminated": len([e for e in log if e[0] == "terminate"]),
                           "streams_open": len(m2._pa._streams),
                           "players_alive": [bool(p is not None and p.is_alive()) for p in players],
                           "closes": len([e for e in log if e[0] == "close"]), "opens": len([e for e in log if e[0] == "open"])}
    except BaseException as e:
      result["c2_exc"] = "%s: %s" % (type(e).__name__, e)
    finally:
      sys.settrace(None)
      with g.cv:
        g.finished = True; g.cv.notify_all()

  def main_script():
    g = sch.gate_of(threading.get_ident(), "main")
    sys.settrace(sch.tracer)
    try:
      mgr = lio.AudioIO(wait=run["wait"])
      mgr_box["mgr"] = mgr; mgr_ready.set()
      for p in range(P):
        n = run["L"][p] * CH
        try:
          mgr.play([float(i % 3) for i in range(n)], chunk_size=CH)
        except threading.ThreadError:          # the manager was closed by the other thread meanwhile
          log.append(["play-raises"])
      for c, t in zip(run["choices"], run["targets"]):
        th = players[t]
        if c == 1: th.pause()
        elif c == 2: th.play()
        elif c == 3: th.stop()
      mgr.close()
      try:
        mgr.play([0.0], chunk_size=CH)
        result["raised_after_close"] = False
      except threading.ThreadError:
        result["raised_after_close"] = True
        log.append(["play-raises"])
    except BaseException as e:
      result["main_exc"] = "%s: %s" % (type(e).__name__, e)
    finally:
      sys.settrace(None)
      with g.cv:
        g.finished = True; g.cv.notify_all()

  mt = threading.Thread(target=main_script, daemon=True)
  c2t = threading.Thread(target=closer2_script, daemon=True) if run.get("closers") == 2 else None
  mt.start()
  if c2t is not None: c2t.start()
  # the main thread registers its gate under its own ident on first traced line
  t0 = time.time()
  while mt.ident not in sch.gates and time.time() - t0 < 5: time.sleep(0.005)
  gates = {0: sch.gates.get(mt.ident)}

  def gate_for(th):
    if th in gates and gates[th] is not None: return gates[th]
    if c2t is not None and th == P + 1:
      t0 = time.time()
      while time.time() - t0 < step_timeout:
        if c2t.ident is not None and c2t.ident in sch.gates:
          gates[th] = sch.gates[c2t.ident]; return gates[th]
        time.sleep(0.002)
      return None
    # a player's gate appears when its thread starts running
    t0 = time.time()
    while time.time() - t0 < step_timeout:
      pl = players[th - 1]
      if pl is not None and pl.ident is not None and pl.ident in sch.gates:
        gates[th] = sch.gates[pl.ident]; return gates[th]
      time.sleep(0.002)
    return None

  status, detail = "ok", ""
  for i, st in enumerate(run["steps"]):
    if st is None: continue
    th, lab, stmts = st
    for line, what in stmts:
      if line is None: continue                       # ghost / control-flow node without a source line of its own
      g = gate_for(th)
      if g is None:
        status, detail = "mismatch", "step %d: thread %d never started" % (i, th); break
      # advance the thread until it is parked at this line, then let it execute it
      hops = 0
      while True:
        w = sch.wait_parked(g, step_timeout)
        if w != "parked":
          import traceback
          fr = sys._current_frames()
          where = {}
          for ident, gg in sch.gates.items():
            f = fr.get(ident)
            where[gg.name] = {"pending": gg.pending, "grants": gg.grants, "finished": gg.finished,
                              "stack": [ "%s:%d" % (os.path.basename(x.filename), x.lineno) for x in traceback.extract_stack(f)[-4:]] if f else None}
          status, detail = ("blocked" if w == "blocked" else "mismatch"), \
            "step %d: thread %d is %s before reaching line %d (%s); threads: %s" % (i, th, w, line, what, json.dumps(where))
          break
        if g.pending == line: break
        hops += 1
        if hops > 12:
          status, detail = "mismatch", "step %d: thread %d parked at line %s, model expects %d (%s)" % (i, th, g.pending, line, what)
          break
        sch.grant(g)
        if sch.wait_parked(g, step_timeout) == "blocked":
          status, detail = "blocked", "step %d: thread %d blocks while skipping to line %d" % (i, th, line)
          break
      if status != "ok": break
      if status != "ok": break
      sch.grant(g)
      # the granted line must have been fully executed (thread parked again / finished) before anybody else moves
      w = sch.wait_parked(g, step_timeout)
      if w == "blocked":
        status, detail = "blocked", "step %d: thread %d blocks while executing line %d (%s)" % (i, th, line, what)
        break
    if status != "ok": break
  if status == "ok":
    # let everything run to completion (the model's run is complete)
    sch.release_all()
    mt.join(step_timeout * 3)
    if c2t is not None: c2t.join(step_timeout * 3)
    alive = [p for p in players if p is not None and p.is_alive()]
    if mt.is_alive() or alive or (c2t is not None and c2t.is_alive()):
      status, detail = "hang", "after the schedule: main alive=%s players alive=%d second closer alive=%s" % (
          mt.is_alive(), len(alive), c2t.is_alive() if c2t is not None else None)
  events = [[e[0]] + ([e[1]] if len(e) > 1 and e[0] != "write" else ([e[1]] if e[0] == "write" else [])) for e in log
            if e[0] != "write-fails"]
  writes = {}
  for e in log:
    if e[0] == "write": writes.setdefault(e[1], []).append(e[2])
  return {"status": status, "detail": detail, "events": events, "grants": getattr(sch, "trace", []), "main_exc": result["main_exc"],
          "raised_after_close": result["raised_after_close"], "c2_post": result.get("c2_post"), "c2_exc": result.get("c2_exc"),
          "writes": {str(k): [v.hex() for v in vs] for k, vs in writes.items()},
          "main_alive": mt.is_alive(), "players_alive": [bool(p is not None and p.is_alive()) for p in players],
          "halting_flags": [bool(getattr(p, "halting", False)) if p is not None else None for p in players],
          "calls": calls}


def check_deadlock(repo, run, settle=1.5):
  """Executes the counterexample schedule and then checks that close() really never returns."""
  r = replay(repo, run, step_timeout=0.7)
  return r


def main():
  repo, inp = sys.argv[1], sys.argv[2]
  runs = json.load(open(inp))
  out = []
  for run in runs:
    # each run in a child process: blocked threads must not leak into the next one
    r, w = os.pipe()
    pid = os.fork()
    if pid == 0:
      os.close(r)
      try:
        res = replay(repo, run, step_timeout=run.get("step_timeout", 1.0))
      except BaseException as e:
        import traceback
        res = {"status": "error", "detail": "%s: %s" % (type(e).__name__, e), "trace": traceback.format_exc()[-1500:]}
      os.write(w, json.dumps(res).encode())
      os.close(w)
      os._exit(0)
    os.close(w)
    data = b""
    t0 = time.time()
    while True:
      chunk = os.read(r, 65536)
      if not chunk: break
      data += chunk
    os.waitpid(pid, 0)
    out.append(json.loads(data.decode()) if data else {"status": "error", "detail": "no result"})
  json.dump(out, sys.stdout)


if __name__ == "__main__":
  main()
