"""pyts: AST of the real lazy_io.py -> guarded-command transition system -> z3 bounded model checking.

The thread *schedule* is the symbolic variable: at each of K steps one thread (main = 0, player p = p+1) fires the
node its program counter points at, if that node's guard holds (locks free, Event set, thread joined...).  The
translator supports exactly the statement forms that occur in AudioThread.run/stop/pause/play and
AudioIO.close/play/thread_finished; anything else raises Unsupported (exit 2, never a silent skip).
"""
import ast
import time

import z3

BW = 10


def IV(v): return z3.BitVecVal(v, BW)
def IC(name): return z3.BitVec(name, BW)


class Unsupported(Exception):
  pass


MAIN = 0
END = 0
FIELDS_T = dict(lock="int", go="bool", halting="bool", open="bool", active="bool", started="bool", done="bool",
                it="int", written="int", created="bool", closed="int", paused_by_user="bool", crashed="bool")
NOFAULT = 500          # value of fault<p> meaning "the backend never fails for this player"
FIELDS_M = dict(finished="bool", lock="int", halting="int", nthreads="int", terminated="int", raised="int",
                order_bad="bool", assert_bad="bool", closed_ret="bool", in_close="bool", closed2_ret="bool", c2_bad="bool", close_called="bool")

TRUE = lambda s: z3.BoolVal(True)
NOUPD = lambda s: {}


def src(e): return ast.unparse(e)


class Prog:
  def __init__(self, me):
    self.me, self.nodes, self.n, self.info, self.kind = me, {}, 0, {}, {}
  def new(self):
    self.n += 1
    return self.n
  def add(self, lab, guard, effect, succ, line=None, what="", kind="other"):
    """kind: acq (lock acquire, right mover) | rel (lock release, left mover) | local (touches thread-local state only,
    both mover) | other (accesses shared state: non mover)"""
    self.nodes[lab] = (guard, effect, succ)
    self.info[lab] = [(line, what)]          # list: a merged node stands for several statements
    self.kind[lab] = kind


def _labels_in(e):
  """all bit-vector numerals occurring in a successor expression"""
  out, todo = set(), [e]
  while todo:
    x = todo.pop()
    if z3.is_bv_value(x): out.add(x.as_long())
    else: todo.extend(x.children())
  return out


def _compose(A, B):
  """node A followed atomically by node B (B's guard is evaluated in the state A produces)"""
  gA, eA, nA = A
  gB, eB, nB = B
  def guard(s):
    s2 = dict(s); s2.update(eA(s))
    return z3.And(gA(s), gB(s2))
  def effect(s):
    u = dict(eA(s))
    s2 = dict(s); s2.update(u)
    u.update(eB(s2))
    return u
  def succ(s):
    s2 = dict(s); s2.update(eA(s))
    return nB(s2)
  return (guard, effect, succ)


class Model:
  def __init__(self, path, P=1, LMAX=2, H=1, ops=("pause", "play", "stop"), reduce=True, faults=False, closers=1, early=False):
    """faults=True: the backend may fail - for each player the write of one solver-chosen chunk may raise (fault<p> is the
    index of that chunk, or NOFAULT); the exception propagates through `with` / `try-finally` like in Python and, when
    nothing catches it, ends the player thread."""
    self.path, self.P, self.LMAX, self.H, self.ops, self.faults = path, P, LMAX, H, list(ops), faults
    # closers=2: a second thread calls AudioIO.close() concurrently with the main thread's close() (terminate(), a
    # with-block exit in another thread, __del__); every close call must have its postconditions when IT returns
    self.closers = closers
    self.C2 = P + 1
    # early=True: the second closer may arrive at ANY moment, also while the main thread is still inside play()
    self.early = early
    tree = ast.parse(open(path).read())
    self.CLS = {c.name: {f.name: f for f in c.body if isinstance(f, ast.FunctionDef)}
                for c in tree.body if isinstance(c, ast.ClassDef)}
    for cls, meths in (("AudioThread", ("run", "stop", "pause", "play", "__init__")),
                       ("AudioIO", ("close", "play", "thread_finished", "__init__"))):
      for m in meths:
        if m not in self.CLS.get(cls, {}): raise Unsupported("%s.%s not found in %s" % (cls, m, path))
    self._check_init()
    self.WAIT = z3.Bool("wait")
    self.L = [IC("L%d" % p) for p in range(P)]
    self.FAULT = [IC("fault%d" % p) for p in range(P)]
    self.CHOICE = [IC("choice%d" % h) for h in range(H)]
    self.TARGET = [IC("target%d" % h) for h in range(H)]
    self.progs, self.entries = {}, {}
    mp, me = self.main_prog()
    self.progs[MAIN], self.entries[MAIN] = mp, me
    for p in range(P):
      self.progs[p + 1], self.entries[p + 1] = self.player_prog(p)
    if closers == 2:
      self.progs[self.C2], self.entries[self.C2] = self.closer_prog()
    self.nodes_before_reduction = self.nodes_total()
    if reduce:
      for th in self.progs:
        self.entries[th] = self.reduce(self.progs[th], self.entries[th])

  # ---- initial values come from the constructors' source ------------------------------------------
  def _check_init(self):
    ti = src(self.CLS["AudioThread"]["__init__"])
    need = ["self.lock = threading.Lock()", "self.go = threading.Event()", "self.go.set()", "self.halting = False"]
    for n in need:
      if n not in ti: raise Unsupported("AudioThread.__init__ no longer contains %r" % n)
    mi = src(self.CLS["AudioIO"]["__init__"])
    for n in ["self._threads = []", "self.halting = threading.Lock()", "self.lock = threading.Lock()", "self.finished = False",
              "self.wait = wait"]:
      if n not in mi: raise Unsupported("AudioIO.__init__ no longer contains %r" % n)

  # ---- state ---------------------------------------------------------------------------------------
  def mk_state(self, t):
    s = {}
    for p in range(self.P):
      for f, k in FIELDS_T.items():
        s["T%d.%s" % (p, f)] = (IC if k == "int" else z3.Bool)("T%d.%s@%d" % (p, f, t))
      s["pc%d" % (p + 1)] = IC("pc%d@%d" % (p + 1, t))
    for f, k in FIELDS_M.items():
      s["M.%s" % f] = (IC if k == "int" else z3.Bool)("M.%s@%d" % (f, t))
    for i in range(self.P):
      s["M.threads%d" % i] = IC("M.threads%d@%d" % (i, t))
    s["pc0"] = IC("pc0@%d" % t)
    s["main.thread"] = IC("main.thread@%d" % t)
    s["main.idx"] = IC("main.idx@%d" % t)
    if self.closers == 2:
      s["pc%d" % self.C2] = IC("pc%d@%d" % (self.C2, t))
      s["c2.thread"] = IC("c2.thread@%d" % t)
      s["c2.idx"] = IC("c2.idx@%d" % t)
    return s

  def fget(self, s, recv, field):
    if recv[0] == "M": return s["M." + field]
    p = recv[1]
    if isinstance(p, str): p = s[p]
    if isinstance(p, int): return s["T%d.%s" % (p, field)]
    e = s["T%d.%s" % (self.P - 1, field)]
    for q in range(self.P - 2, -1, -1):
      e = z3.If(p == q, s["T%d.%s" % (q, field)], e)
    return e

  def fset(self, s, upd, recv, field, val):
    if recv[0] == "M":
      upd["M." + field] = val; return
    p = recv[1]
    if isinstance(p, str): p = s[p]
    if isinstance(p, int):
      upd["T%d.%s" % (p, field)] = val
    else:
      for q in range(self.P):
        k = "T%d.%s" % (q, field)
        upd[k] = z3.If(p == q, val, upd.get(k, s[k]))

  def _upd(self, s, recv, field, val):
    u = {}
    self.fset(s, u, recv, field, val)
    return u

  def in_threads(self, s, p):
    if isinstance(p, str): p = s[p]
    return z3.Or(*[z3.And(i < s["M.nthreads"], s["M.threads%d" % i] == p) for i in range(self.P)])

  # ---- expressions ---------------------------------------------------------------------------------
  def cond_expr(self, e, env, s):
    if isinstance(e, ast.UnaryOp) and isinstance(e.op, ast.Not):
      return z3.Not(self.cond_expr(e.operand, env, s))
    if isinstance(e, ast.BoolOp):
      parts = [self.cond_expr(v, env, s) for v in e.values]
      return z3.And(*parts) if isinstance(e.op, ast.And) else z3.Or(*parts)
    t = src(e)
    self_ = env["self"]
    if self_[0] == "T":
      tab = {"self.go.is_set()": lambda: self.fget(s, self_, "go"),
             "self.halting": lambda: self.fget(s, self_, "halting"),
             # threading.Thread.is_alive(): started and run() has not returned yet
             "self.is_alive()": lambda: z3.And(self.fget(s, self_, "started"), z3.Not(self.fget(s, self_, "done"))),
             "self in self.device_manager._threads": lambda: self.in_threads(s, self_[1])}
    else:
      tab = {"self.finished": lambda: s["M.finished"],
             "self.wait": lambda: self.WAIT,
             "self._recordings": lambda: z3.BoolVal(False),
             "self._pa._streams": lambda: z3.Or(*[s["T%d.open" % p] for p in range(self.P)])}
    if t not in tab:
      raise Unsupported("condition %r in %s method (line %d)" % (t, self_[0], getattr(e, "lineno", -1)))
    return tab[t]()

  # ---- statements ----------------------------------------------------------------------------------
  def compile_block(self, prog, stmts, env, k_next, k_break, k_ret):
    entry = k_next
    for st in reversed(stmts):
      entry = self.compile_stmt(prog, st, env, entry, k_break, k_ret)
    return entry

  def lock_name(self, e, env):
    t = src(e)
    if t == "self.lock": return (env["self"], "lock")
    if t == "self.halting" and env["self"][0] == "M": return (env["self"], "halting")
    raise Unsupported("with-item %r (line %d)" % (t, e.lineno))

  def compile_stmt(self, prog, st, env, k_next, k_break, k_ret):
    me = prog.me
    lab = prog.new()
    ln = getattr(st, "lineno", None)
    if isinstance(st, ast.Expr) and isinstance(st.value, ast.Constant):
      return k_next
    if isinstance(st, ast.Pass):
      return k_next
    if isinstance(st, ast.With):
      if len(st.items) != 1: raise Unsupported("with with several items (line %d)" % ln)
      recv, field = self.lock_name(st.items[0].context_expr, env)
      rel = prog.new()
      # AudioIO.halting is only ever taken by the main thread - unless a second thread closes the manager too
      mainonly = (recv[0] == "M" and field == "halting" and self.closers == 1)
      # CPython attributes the __exit__ call to the `with` line: a second 'line' event there marks the release
      prog.add(rel, TRUE, lambda s, recv=recv, field=field: self._upd(s, recv, field, IV(-1)), lambda s: IV(k_next),
               ln, "release %s.%s" % (recv[0], field), kind="local" if mainonly else "rel")
      def wrap(k):
        if k is None: return None
        r = prog.new()
        prog.add(r, TRUE, lambda s, recv=recv, field=field: self._upd(s, recv, field, IV(-1)), lambda s, k=k: IV(k),
                 ln, "release(on exit) %s.%s" % (recv[0], field), kind="local" if mainonly else "rel")
        return r
      benv = dict(env, exc=wrap(env.get("exc"))) if env.get("exc") is not None else env      # an exception releases the lock
      body = self.compile_block(prog, st.body, benv, rel, wrap(k_break), wrap(k_ret))
      prog.add(lab, lambda s, recv=recv, field=field: self.fget(s, recv, field) == -1,
               lambda s, recv=recv, field=field: self._upd(s, recv, field, IV(me)), lambda s: IV(body),
               ln, "acquire %s.%s" % (recv[0], field), kind="acq")
      return lab
    if isinstance(st, ast.If) and self._try_acquire(st.test) is not None:
      # `if [not] <lock>.acquire(False):` - one atomic test-and-set
      neg, lock_expr = self._try_acquire(st.test)
      recv, field = self.lock_name(lock_expr, env)
      then = self.compile_block(prog, st.body, env, k_next, k_break, k_ret)
      els = self.compile_block(prog, st.orelse, env, k_next, k_break, k_ret)
      got, failed = (els, then) if neg else (then, els)
      free = lambda s, recv=recv, field=field: self.fget(s, recv, field) == -1
      prog.add(lab, TRUE,
               lambda s, recv=recv, field=field: self._upd(s, recv, field, z3.If(free(s), IV(me), self.fget(s, recv, field))),
               lambda s: z3.If(free(s), IV(got), IV(failed)), ln, "if %s" % src(st.test), kind="other")
      return lab
    if isinstance(st, ast.If):
      then = self.compile_block(prog, st.body, env, k_next, k_break, k_ret)
      els = self.compile_block(prog, st.orelse, env, k_next, k_break, k_ret)
      loc = env["self"][0] == "M" and src(st.test) in ("self.finished", "not self.finished", "not self.wait", "self.wait")
      prog.add(lab, TRUE, NOUPD, lambda s, e=st.test: z3.If(self.cond_expr(e, env, s), IV(then), IV(els)), ln,
               "if " + src(st.test), kind="local" if loc else "other")
      return lab
    if isinstance(st, ast.While):
      t = src(st.test)
      if st.orelse: raise Unsupported("while/else (line %d)" % ln)
      if t == "self._recordings":        # recording streams: none in the model (list stays empty)
        return k_next
      body = self.compile_block(prog, st.body, env, lab, k_next, k_ret)
      if t == "True":
        prog.add(lab, TRUE, NOUPD, lambda s: IV(body), None, "while True", kind="local")
      else:
        prog.add(lab, TRUE, NOUPD, lambda s, e=st.test: z3.If(self.cond_expr(e, env, s), IV(body), IV(k_next)), ln,
                 "while " + t)
      return lab
    if isinstance(st, ast.For) and src(st.iter) == "self._threads" and src(st.target) == "thread" and not st.orelse \
       and env["self"][0] == "M":
      # list iterator over the *live* list: index based, sees removals made meanwhile
      tv = env.get("thread", ("T", "main.thread"))[1]; iv = tv.replace(".thread", ".idx")
      body = self.compile_block(prog, st.body, dict(env, thread=("T", tv)), lab, k_next, k_ret)
      init = prog.new()
      prog.add(init, TRUE, lambda s: {iv: IV(0)}, lambda s: IV(lab), None, "iter(self._threads)", kind="local")
      def eff(s):
        cur = s["M.threads%d" % (self.P - 1)]
        for i in range(self.P - 2, -1, -1): cur = z3.If(s[iv] == i, s["M.threads%d" % i], cur)
        more = s[iv] < s["M.nthreads"]
        return {tv: z3.If(more, cur, s[tv]), iv: z3.If(more, s[iv] + 1, s[iv])}
      prog.add(lab, TRUE, eff, lambda s: z3.If(s[iv] < s["M.nthreads"], IV(body), IV(k_next)), ln,
               "for thread in self._threads")
      return init
    if isinstance(st, ast.For):
      if not src(st.iter).startswith("chunks(self.audio") or st.orelse:
        raise Unsupported("for over %r (line %d)" % (src(st.iter), ln))
      p = env["self"][1]
      body = self.compile_block(prog, st.body, env, lab, k_next, k_ret)
      prog.add(lab, TRUE,
               lambda s: {"T%d.it" % p: z3.If(s["T%d.it" % p] < self.L[p], s["T%d.it" % p] + 1, s["T%d.it" % p])},
               lambda s: z3.If(s["T%d.it" % p] < self.L[p], IV(body), IV(k_next)), ln, "for chunk in chunks(...)", kind="local")
      return lab
    if isinstance(st, ast.Break):
      if k_break is None: raise Unsupported("break outside a loop")
      return k_break
    if isinstance(st, ast.Return):
      if st.value is not None and src(st.value) != "new_thread": raise Unsupported("return %s" % src(st.value))
      return k_ret
    if isinstance(st, ast.Raise):
      prog.add(lab, TRUE, lambda s: {"M.raised": s["M.raised"] + 1}, lambda s: IV(k_ret), ln, "raise", kind="local")
      return lab
    if isinstance(st, ast.Try) and st.finalbody and not st.handlers and not st.orelse:
      # try/finally: the final block runs on every way out of the body (fall through, break, return, exception) and
      # then continues where that way out was heading
      fin = lambda k: None if k is None else self.compile_block(prog, st.finalbody, env, k, k_break, k_ret)
      benv = dict(env, exc=fin(env.get("exc"))) if env.get("exc") is not None else env
      return self.compile_block(prog, st.body, benv, fin(k_next), fin(k_break), fin(k_ret))
    if isinstance(st, ast.Try):
      if not (len(st.body) == 1 and src(st.body[0]) == "thread = self._threads[0]" and len(st.handlers) == 1 and
              src(st.handlers[0].type) == "IndexError" and not st.orelse and not st.finalbody):
        raise Unsupported("try block %r (line %d)" % (src(st)[:80], ln))
      handler = self.compile_block(prog, st.handlers[0].body, env, k_next, k_break, k_ret)
      tv = env.get("thread", ("T", "main.thread"))[1]
      prog.add(lab, TRUE, lambda s, tv=tv: {tv: s["M.threads0"]},
               lambda s: z3.If(s["M.nthreads"] > 0, IV(k_next), IV(handler)), st.body[0].lineno, "thread = self._threads[0]")
      return lab
    if isinstance(st, ast.Assert):
      prog.add(lab, TRUE, lambda s, e=st.test: {"M.assert_bad": z3.Or(s["M.assert_bad"], z3.Not(self.cond_expr(e, env, s)))},
               lambda s: IV(k_next), ln, "assert")
      return lab
    if isinstance(st, (ast.Assign, ast.Expr)):
      return self.compile_simple(prog, lab, st, env, k_next, k_break, k_ret)
    raise Unsupported("statement %r (line %d)" % (src(st)[:80], ln))

  def _try_acquire(self, test):
    """-> (negated, lock expression) when `test` is `[not] X.acquire(False)` / `X.acquire(blocking=False)`, else None"""
    neg = False
    if isinstance(test, ast.UnaryOp) and isinstance(test.op, ast.Not):
      neg, test = True, test.operand
    if isinstance(test, ast.Call) and isinstance(test.func, ast.Attribute) and test.func.attr == "acquire":
      args = [src(a) for a in test.args] + ["%s=%s" % (k.arg, src(k.value)) for k in test.keywords]
      if args in (["False"], ["blocking=False"], ["0"]):
        return neg, test.func.value
    return None

  def compile_simple(self, prog, lab, st, env, k_next, k_break, k_ret):
    t = src(st)
    ln = st.lineno
    self_ = env["self"]
    nxt = lambda s: IV(k_next)
    fget, _upd = self.fget, self._upd
    def simple(effect, guard=TRUE, what=None, kind="other"):
      prog.add(lab, guard, effect, nxt, ln, what or t, kind=kind)
      return lab
    if t in ("self.halting.release()", "self.lock.release()", "self.halting.acquire()", "self.lock.acquire()") and \
       not (t.startswith("self.halting") and self_[0] == "T"):
      recv, field = (self_, t.split(".")[1])
      if t.endswith("release()"):
        return simple(lambda s: _upd(s, recv, field, IV(-1)), kind="rel")
      return simple(lambda s: _upd(s, recv, field, IV(prog.me)), lambda s: fget(s, recv, field) == -1, kind="acq")
    if self_[0] == "T":
      if t == "st = self.stream._stream": return k_next
      if t.startswith("self.write_stream(st, chunk"):
        p = self_[1]
        k_exc = env.get("exc")
        fails = (lambda s: fget(s, self_, "written") == self.FAULT[p]) if (self.faults and k_exc is not None) \
                else (lambda s: z3.BoolVal(False))
        prog.add(lab, TRUE,
                 lambda s: dict(_upd(s, self_, "written", z3.If(fails(s), fget(s, self_, "written"), fget(s, self_, "written") + 1)),
                                **{"M.order_bad": z3.Or(s["M.order_bad"],
                                                       fget(s, self_, "written") != fget(s, self_, "it") - 1,
                                                       z3.Not(fget(s, self_, "open")))}),
                 (lambda s: z3.If(fails(s), IV(k_exc), IV(k_next))) if (self.faults and k_exc is not None) else nxt,
                 ln, "write_stream", kind="local")
        return lab
      if t == "self.stream.stop_stream()": return simple(lambda s: _upd(s, self_, "active", z3.BoolVal(False)), kind="local")
      if t == "self.stream.start_stream()": return simple(lambda s: _upd(s, self_, "active", z3.BoolVal(True)), kind="local")
      if t == "self.stream.close()":
        return simple(lambda s: dict(_upd(s, self_, "open", z3.BoolVal(False)),
                                     **_upd(s, self_, "closed", fget(s, self_, "closed") + 1)))
      if t == "self.go.wait()": return simple(NOUPD, lambda s: fget(s, self_, "go"))
      if t == "self.go.clear()": return simple(lambda s: _upd(s, self_, "go", z3.BoolVal(False)))
      if t == "self.go.set()": return simple(lambda s: _upd(s, self_, "go", z3.BoolVal(True)))
      if t in ("self.halting = True", "self.halting = False"):
        return simple(lambda s: _upd(s, self_, "halting", z3.BoolVal(t.endswith("True"))))
      if t == "self.device_manager.thread_finished(self)":
        return self.inline(prog, "AudioIO", "thread_finished", {"self": ("M",), "thread": self_}, k_next)
    else:
      if t == "self.finished = True": return simple(lambda s: {"M.finished": z3.BoolVal(True)}, kind="local")
      if t == "self._threads.remove(thread)":
        th = env["thread"][1]
        def eff(s, th=th):
          thv = s[th] if isinstance(th, str) else th
          u = {}
          found = z3.BoolVal(False)
          for i in range(self.P):
            here = z3.And(i < s["M.nthreads"], s["M.threads%d" % i] == thv)
            found = z3.Or(found, here)
            nxtv = s["M.threads%d" % (i + 1)] if i + 1 < self.P else IV(-1)
            u["M.threads%d" % i] = z3.If(found, nxtv, s["M.threads%d" % i])
          u["M.nthreads"] = z3.If(found, s["M.nthreads"] - 1, s["M.nthreads"])
          u["M.assert_bad"] = z3.Or(s["M.assert_bad"], z3.Not(found))      # list.remove would raise ValueError
          return u
        return simple(eff)
      if t == "thread.stop()":
        return self.inline(prog, "AudioThread", "stop", {"self": env["thread"]}, k_next)
      if t == "thread.join()":
        # ghost: with wait false, close() must have asked this thread to stop before waiting for it ("promptly")
        # joining a thread that was never started raises RuntimeError in CPython (close() would raise): flagged
        return simple(lambda s: {"M.assert_bad": z3.Or(s["M.assert_bad"],
                                                       z3.And(z3.Not(self.WAIT), z3.Not(fget(s, env["thread"], "halting"))),
                                                       z3.Not(fget(s, env["thread"], "started")))},
                      lambda s: z3.Or(fget(s, env["thread"], "done"), z3.Not(fget(s, env["thread"], "started"))))
      if t == "self._pa.terminate()":
        return simple(lambda s: {"M.terminated": s["M.terminated"] + 1}, kind="local")
      if t.startswith("new_thread = AudioThread(self, audio"):
        nt = env["new_thread"]
        def eff(s):
          u = {}
          for f, v in (("lock", IV(-1)), ("go", z3.BoolVal(True)), ("halting", z3.BoolVal(False)),
                       ("open", z3.BoolVal(True)), ("active", z3.BoolVal(True)), ("created", z3.BoolVal(True))):
            self.fset(s, u, nt, f, v)
          return u
        return simple(eff, what="AudioThread(...) [opens the device stream]")
      if t == "self._threads.append(new_thread)":
        nt = env["new_thread"][1]
        def eff(s):
          u = {"M.nthreads": s["M.nthreads"] + 1}
          for i in range(self.P):
            u["M.threads%d" % i] = z3.If(s["M.nthreads"] == i, IV(nt), s["M.threads%d" % i])
          return u
        return simple(eff)
      if t == "new_thread.start()":
        return simple(lambda s: _upd(s, env["new_thread"], "started", z3.BoolVal(True)))
      if t in ("recst = self._recordings[-1]", "recst.stop()", "recst.take(inf)"):
        return k_next
    raise Unsupported("statement %r in an %s method (line %d)" % (t, {"T": "AudioThread", "M": "AudioIO"}[self_[0]], ln))

  def inline(self, prog, cls, meth, env, k_next):
    f = self.CLS[cls][meth]
    return self.compile_block(prog, f.body, env, k_next, None, k_next)

  # ---- thread programs -----------------------------------------------------------------------------
  def player_prog(self, p):
    prog = Prog(p + 1)
    done = prog.new()
    prog.add(done, TRUE, lambda s: {"T%d.done" % p: z3.BoolVal(True)}, lambda s: IV(END), None, "thread exits")
    dead = prog.new()       # an exception nobody caught ends the thread (threading prints the traceback)
    prog.add(dead, TRUE, lambda s: {"T%d.done" % p: z3.BoolVal(True), "T%d.crashed" % p: z3.BoolVal(True)}, lambda s: IV(END),
             None, "thread dies with the exception")
    entry = self.compile_block(prog, self.CLS["AudioThread"]["run"].body, {"self": ("T", p), "exc": dead}, done, None, done)
    return prog, entry

  def _bad_after_close(self, s):
    """what must NOT be the case when a close() call returns"""
    return z3.Or(s["M.terminated"] != 1,
                 *[z3.And(s["T%d.created" % p], z3.Or(s["T%d.open" % p], s["T%d.closed" % p] != 1)) for p in range(self.P)])

  def closer_prog(self):
    prog = Prog(self.C2)
    fin = prog.new()
    prog.add(fin, TRUE, lambda s: {"M.closed2_ret": z3.BoolVal(True), "M.c2_bad": self._bad_after_close(s)}, lambda s: IV(END),
             None, "second close() returned", kind="other")
    k = self.inline(prog, "AudioIO", "close", {"self": ("M",), "thread": ("T", "c2.thread")}, fin)
    start = prog.new()
    # the second closer arrives at any moment once the main thread has called close() (either may get the lock first)
    prog.add(start, (TRUE if self.early else (lambda s: s["M.close_called"])), NOUPD, lambda s, k=k: IV(k), None,
             "second thread calls close()", kind="other")
    return prog, start

  def main_prog(self):
    prog = Prog(MAIN)
    fin = prog.new()
    prog.add(fin, TRUE, lambda s: {"M.closed_ret": z3.BoolVal(True)}, lambda s: IV(END), None, "script ends", kind="local")
    # after close: a play() that must raise
    after = self.inline(prog, "AudioIO", "play", {"self": ("M",), "new_thread": ("T", 0)}, fin)
    mark2 = prog.new()
    prog.add(mark2, TRUE, lambda s: {"M.in_close": z3.BoolVal(False)}, lambda s: IV(after), None, "close() returned", kind="local")
    k = self.inline(prog, "AudioIO", "close", {"self": ("M",), "thread": ("T", "main.thread")}, mark2)
    mark = prog.new()
    prog.add(mark, TRUE, lambda s: {"M.in_close": z3.BoolVal(True), "M.close_called": z3.BoolVal(True)}, lambda s, k=k: IV(k), None,
             "close() called", kind="local" if self.closers == 1 else "other")
    k = mark
    opcode = {"pause": 1, "play": 2, "stop": 3}
    for h in reversed(range(self.H)):
      tgt = ("T", self.TARGET[h])
      opts = {}
      for name in self.ops:
        entry = self.inline(prog, "AudioThread", name, {"self": tgt}, k)
        if name in ("pause", "play"):
          # ghost bookkeeping for the wait=True environment assumption (is a player left paused by the user?)
          g = prog.new()
          # a pause() issued to a player that was already told to stop does not count: a stopping player has no audio
          # left to wait for, so close(wait=True) must still return
          if name == "pause":
            eff = lambda s, tgt=tgt: self._upd(s, tgt, "paused_by_user", z3.Not(self.fget(s, tgt, "halting")))
          else:
            eff = lambda s, tgt=tgt: self._upd(s, tgt, "paused_by_user", z3.BoolVal(False))
          prog.add(g, TRUE, eff, lambda s, e=entry: IV(e), None, "user calls %s()" % name, kind="other")
          entry = g
        opts[opcode[name]] = entry
      sel = prog.new()
      def succ(s, h=h, opts=opts, k=k):
        e = IV(k)
        for code, ent in opts.items():
          e = z3.If(self.CHOICE[h] == code, IV(ent), e)
        return e
      prog.add(sel, TRUE, NOUPD, succ, None, "control call %d" % h, kind="local")
      k = sel
    for p in reversed(range(self.P)):
      k = self.inline(prog, "AudioIO", "play", {"self": ("M",), "new_thread": ("T", p)}, k)
    return prog, k

  # ---- Lipton reduction -----------------------------------------------------------------------------
  def reduce(self, prog, entry):
    """Merges statements into atomic steps where that cannot remove a behaviour (Lipton's reduction): a lock acquire is a
    right mover (fused with the statement after it), a release a left mover (fused with the statement before it),
    thread-local statements are both movers (fused with their successor).  Returns the new entry label."""
    dummy = self.mk_state(9999)
    def const_succ(lab):
      e = z3.simplify(prog.nodes[lab][2](dummy))
      return e.as_long() if z3.is_bv_value(e) else None
    def guard_true(lab):
      return z3.is_true(z3.simplify(prog.nodes[lab][0](dummy)))
    changed = True
    rounds = 0
    while changed and rounds < 200:
      changed = False; rounds += 1
      for A in list(prog.nodes):
        if A not in prog.nodes: continue
        B = const_succ(A)
        if B is None or B == END or B == A or B not in prog.nodes: continue
        ka, kb = prog.kind[A], prog.kind[B]
        ok = False
        if kb == "rel" and ka in ("other", "local", "rel", "acq+"): ok = True          # fuse a release into what precedes it
        elif kb == "local" and guard_true(B) and ka in ("other", "acq+", "rel"): ok = True   # ... or a local statement
        elif ka == "acq" and guard_true(B) and kb in ("other", "local", "rel"): ok = True     # acquire + next statement
        elif ka == "local" and guard_true(A): ok = True                          # local statement + whatever follows
        if not ok: continue
        prog.nodes[A] = _compose(prog.nodes[A], prog.nodes[B])
        prog.info[A] = prog.info[A] + prog.info[B]
        # resulting mover class
        if ka == "local": prog.kind[A] = kb
        elif ka == "acq": prog.kind[A] = "acq+" if kb != "rel" else "other"
        elif kb == "rel": prog.kind[A] = "other" if ka != "local" else "rel"
        # (kb == "local": the class of A is unchanged)
        changed = True
    # drop unreachable nodes
    reach, todo = set(), [entry]
    while todo:
      l = todo.pop()
      if l in reach or l == END or l not in prog.nodes: continue
      reach.add(l)
      e = prog.nodes[l][2](dummy)
      todo.extend(_labels_in(e))
    for l in list(prog.nodes):
      if l not in reach:
        del prog.nodes[l]; del prog.info[l]; del prog.kind[l]
    return entry

  # ---- transition relation -------------------------------------------------------------------------
  def init_constraints(self, s):
    c = [s["pc0"] == self.entries[MAIN], s["main.thread"] == -1, s["main.idx"] == 0]
    if self.closers == 2:
      c += [s["pc%d" % self.C2] == self.entries[self.C2], s["c2.thread"] == -1, s["c2.idx"] == 0]
    for p in range(self.P):
      c += [s["pc%d" % (p + 1)] == self.entries[p + 1], s["T%d.lock" % p] == -1, z3.Not(s["T%d.go" % p]),
            z3.Not(s["T%d.halting" % p]), z3.Not(s["T%d.open" % p]), z3.Not(s["T%d.active" % p]),
            z3.Not(s["T%d.started" % p]), z3.Not(s["T%d.done" % p]), s["T%d.it" % p] == 0,
            s["T%d.written" % p] == 0, z3.Not(s["T%d.created" % p]), s["T%d.closed" % p] == 0,
            z3.Not(s["T%d.paused_by_user" % p]), z3.Not(s["T%d.crashed" % p]), self.L[p] >= 0, self.L[p] <= self.LMAX,
            (z3.Or(self.FAULT[p] == NOFAULT, z3.And(self.FAULT[p] >= 0, self.FAULT[p] < self.LMAX)) if self.faults
             else self.FAULT[p] == NOFAULT),
            s["M.threads%d" % p] == -1]
    c += [z3.Not(s["M.finished"]), s["M.lock"] == -1, s["M.halting"] == -1, s["M.nthreads"] == 0,
          s["M.terminated"] == 0, s["M.raised"] == 0, z3.Not(s["M.order_bad"]), z3.Not(s["M.assert_bad"]),
          z3.Not(s["M.closed_ret"]), z3.Not(s["M.in_close"]), z3.Not(s["M.closed2_ret"]), z3.Not(s["M.c2_bad"]), z3.Not(s["M.close_called"])]
    codes = [0] + [{"pause": 1, "play": 2, "stop": 3}[o] for o in self.ops]
    for h in range(self.H):
      c += [z3.Or(*[self.CHOICE[h] == v for v in codes]), self.TARGET[h] >= 0, self.TARGET[h] < self.P]
    return c

  def enabled(self, s, th):
    pc = s["pc%d" % th]
    started = z3.BoolVal(True) if (th == MAIN or (self.closers == 2 and th == self.C2)) else s["T%d.started" % (th - 1)]
    return z3.And(started, z3.Or(*[z3.And(pc == lab, g(s)) for lab, (g, e, n) in self.progs[th].nodes.items()]))

  def step(self, s, s2, sched):
    cons = []
    threads = list(self.progs)
    anyen = z3.Or(*[self.enabled(s, th) for th in threads])
    newv = dict(s)
    for th in threads:
      pcname = "pc%d" % th
      for lab, (g, e, n) in self.progs[th].nodes.items():
        fire = z3.And(sched == th, s[pcname] == lab)
        upd = dict(e(s))
        upd[pcname] = n(s)
        for k, v in upd.items():
          newv[k] = z3.If(fire, v, newv[k])
    cons.append(z3.Or(*[z3.And(sched == th, self.enabled(s, th)) for th in threads] +
                      [z3.And(sched == -1, z3.Not(anyen))]))
    for k in s:
      cons.append(s2[k] == z3.If(sched == -1, s[k], newv[k]))
    return cons, anyen

  def _private_nodes(self):
    """For every player p: labels of nodes that read and write nothing but T_p.* / pc_p (they commute with every node of
    another player).  Computed from the node's own guard/effect/successor terms on a dummy state."""
    import re
    dummy = self.mk_state(9999)
    def names(e):
      out, todo, seen = set(), [e], set()
      while todo:
        x = todo.pop()
        if x.get_id() in seen: continue
        seen.add(x.get_id())
        if z3.is_const(x) and x.decl().kind() == z3.Z3_OP_UNINTERPRETED: out.add(x.decl().name())
        todo.extend(x.children())
      return out
    priv = {}
    for th, prog in self.progs.items():
      if th == MAIN or (self.closers == 2 and th == self.C2): continue
      p = th - 1
      ok = set()
      for lab, (g, e, n) in prog.nodes.items():
        upd = e(dummy)
        touched = set()
        for k, v in upd.items():
          touched.add(k); touched |= {x.split("@")[0] for x in names(v)}
        touched |= {x.split("@")[0] for x in names(g(dummy))} | {x.split("@")[0] for x in names(n(dummy))}
        touched = {x for x in touched if "@" not in x or True}
        allowed = lambda x: x.startswith("T%d." % p) or x == "pc%d" % th or re.match(r"^(L\d+|fault\d+|wait)$", x)
        if all(allowed(x) for x in touched): ok.add(lab)
      priv[th] = ok
    return priv

  def unroll(self, K, preempt=None):
    """preempt = C bounds the number of pre-emptions (a switch away from a thread that could still move)."""
    states = [self.mk_state(t) for t in range(K + 1)]
    sched = [IC("sched@%d" % t) for t in range(K)]
    cons = list(self.init_constraints(states[0]))
    anyens = []
    for t in range(K):
      c, anyen = self.step(states[t], states[t + 1], sched[t])
      cons += c
      anyens.append(anyen)
    if self.P >= 2 and getattr(self, "por", True):
      # partial-order reduction: two consecutive steps of *different players* that are both private commute, so only
      # the order "lower player first" is explored
      priv = self._private_nodes()
      for t in range(K - 1):
        for a in range(2, self.P + 1):
          for b in range(1, a):
            pa = z3.Or(*[states[t]["pc%d" % a] == l for l in priv[a]]) if priv[a] else z3.BoolVal(False)
            pb = z3.Or(*[states[t + 1]["pc%d" % b] == l for l in priv[b]]) if priv[b] else z3.BoolVal(False)
            cons.append(z3.Not(z3.And(sched[t] == a, sched[t + 1] == b, pa, pb)))
    if preempt is not None:
      terms = []
      for t in range(K - 1):
        still = z3.Or(*[z3.And(sched[t] == th, self.enabled(states[t + 1], th)) for th in self.progs])
        terms.append(z3.If(z3.And(sched[t + 1] != sched[t], sched[t + 1] != -1, still), IV(1), IV(0)))
      total = terms[0]
      for x in terms[1:]: total = total + x
      cons.append(z3.ULE(total, IV(preempt)))
    return states, sched, cons, anyens

  def model_lines(self):
    out = set()
    for p in self.progs.values():
      for info in p.info.values():
        for line, what in info:
          if line is not None: out.add(line)
    return sorted(out)

  def nodes_total(self):
    return sum(len(p.nodes) for p in self.progs.values())

  # ---- properties ----------------------------------------------------------------------------------
  def prop(self, name, states, anyens):
    P = self.P
    paused_left = z3.Or(*[z3.And(states[t]["M.in_close"], z3.Or(*[states[t]["T%d.paused_by_user" % p] for p in range(P)]))
                          for t in range(len(states))])
    if name == "longer":            # a run longer than K exists (bound too small)
      return z3.Or(*[self.enabled(states[-1], th) for th in self.progs])
    if name == "safety":
      return z3.Or(*[z3.Or(s["M.order_bad"], s["M.assert_bad"]) for s in states])
    if name == "final":
      s = states[-1]
      bad = z3.Or(s["M.terminated"] != 1, (s["M.raised"] != 1) if not self.early else z3.ULT(s["M.raised"], 1),
                  *[(z3.Or(s["T%d.open" % p], s["T%d.closed" % p] != 1,
                           z3.And(s["T%d.started" % p], z3.Not(s["T%d.done" % p]), z3.Or(s["T%d.open" % p])))
                     if not self.early else            # an early closer may have refused the play() that creates player p
                     z3.And(s["T%d.created" % p], z3.Or(s["T%d.open" % p], s["T%d.closed" % p] != 1)))
                    for p in range(P)])
      return z3.And(s["M.closed_ret"], bad)
    if name == "final2":            # the second close() call returned while the manager was not shut down
      return z3.Or(*[s["M.c2_bad"] for s in states])
    if name == "lost":
      s = states[-1]
      # a player whose backend failed delivered the chunks before the failure (order is the safety clause)
      return z3.Or(*[z3.And(s["T%d.done" % p], z3.Not(s["T%d.halting" % p]), z3.Not(s["T%d.crashed" % p]),
                            self.FAULT[p] == NOFAULT, s["T%d.written" % p] != self.L[p])
                     for p in range(P)])
    unfinished = (lambda st: z3.Not(st["M.closed_ret"])) if self.closers == 1 else \
                 (lambda st: z3.Or(z3.Not(st["M.closed_ret"]), z3.Not(st["M.closed2_ret"])))
    dead = z3.Or(*[z3.And(z3.Not(anyens[t]), unfinished(states[t])) for t in range(len(anyens))])
    if name == "deadlock_nowait":
      return z3.And(z3.Not(self.WAIT), dead)
    if name == "deadlock_wait":     # environment assumption: no player is left paused by the user when close() waits
      return z3.And(self.WAIT, dead, z3.Not(paused_left))
    raise ValueError(name)

  def bmc(self, K, name, timeout_s=600, extra=(), preempt=None):
    states, sched, cons, anyens = self.unroll(K, preempt)
    sol = z3.SolverFor("QF_BV")
    sol.set("timeout", int(timeout_s * 1000))
    sol.add(*cons)
    sol.add(self.prop(name, states, anyens))
    for e in extra: sol.add(e(self, states))
    t0 = time.time()
    r = str(sol.check())
    out = {"query": name, "K": K, "preemptions": preempt, "result": r, "time_s": round(time.time() - t0, 2), "nodes": self.nodes_total()}
    if r == "sat":
      m = sol.model()
      ev = lambda x: m.eval(x, model_completion=True)
      out["wait"] = z3.is_true(ev(self.WAIT))
      out["L"] = [ev(x).as_long() for x in self.L]
      out["faults"] = [(ev(x).as_long() if ev(x).as_long() != NOFAULT else None) for x in self.FAULT]
      out["choices"] = [ev(x).as_long() for x in self.CHOICE]
      out["targets"] = [ev(x).as_long() for x in self.TARGET]
      sc = [ev(x).as_signed_long() for x in sched]
      out["schedule"] = sc
      # the node fired at each step (thread, label, line, what)
      steps = []
      for t, th in enumerate(sc):
        if th < 0: steps.append(None); continue
        lab = ev(states[t]["pc%d" % th]).as_long()
        steps.append([th, lab, self._fired(ev, states[t], th, lab)])
      out["steps"] = steps
      fs = states[-1]
      out["final"] = {k: str(ev(v)) for k, v in fs.items() if not k.startswith("M.threads")}
    return out

  def sample_run(self, K, timeout_s=120, extra=(), preempt=None):
    """A complete run (everybody finished within K) - used to validate the model against the implementation."""
    states, sched, cons, anyens = self.unroll(K, preempt)
    sol = z3.SolverFor("QF_BV")
    sol.set("timeout", int(timeout_s * 1000))
    sol.add(*cons)
    sol.add(states[-1]["M.closed_ret"])
    if self.closers == 2: sol.add(states[-1]["M.closed2_ret"])
    for e in extra: sol.add(e(self, states, sched))
    r = str(sol.check())
    if r != "sat": return {"result": r}
    m = sol.model()
    ev = lambda x: m.eval(x, model_completion=True)
    sc = [ev(x).as_signed_long() for x in sched]
    steps = []
    for t, th in enumerate(sc):
      if th < 0: continue
      lab = ev(states[t]["pc%d" % th]).as_long()
      steps.append([th, lab, self._fired(ev, states[t], th, lab)])
    return {"result": "sat", "wait": z3.is_true(ev(self.WAIT)), "L": [ev(x).as_long() for x in self.L],
            "faults": [(ev(x).as_long() if ev(x).as_long() != NOFAULT else None) for x in self.FAULT],
            "choices": [ev(x).as_long() for x in self.CHOICE], "targets": [ev(x).as_long() for x in self.TARGET],
            "steps": steps,
            "events": self.events_of(steps, [(ev(x).as_long() if ev(x).as_long() != NOFAULT else None) for x in self.FAULT])}

  def _fired(self, ev, state, th, lab):
    """(line, what) of every statement a (possibly merged) node stands for"""
    return [list(x) for x in self.progs[th].info.get(lab, [(None, "?")])]

  @staticmethod
  def events_of(steps, faults=None):
    """Backend-visible event trace of a run of the model (a write the backend refuses is not an event)."""
    ev = []
    flat = []
    nwrites = {}
    for st in steps:
      if st is None: continue
      th, lab, stmts = st
      for line, what in stmts: flat.append((th, what))
    for th, what in flat:
      if what == "write_stream":
        n = nwrites.get(th, 0)
        if faults and th - 1 < len(faults) and faults[th - 1] is not None and faults[th - 1] == n: continue
        nwrites[th] = n + 1
        ev.append(["write", th - 1])
      elif what == "self.stream.stop_stream()": ev.append(["stop_stream", th - 1])
      elif what == "self.stream.start_stream()": ev.append(["start_stream", th - 1])
      elif what == "self.stream.close()": ev.append(["close", th - 1])
      elif what == "self._pa.terminate()": ev.append(["terminate"])
      elif what.startswith("AudioThread(...)"): ev.append(["open"])
      elif what == "raise": ev.append(["play-raises"])
    return ev
