#!/bin/sh
# Offline setup: overlay venv on top of /venv (which holds the repo's own deps)
# with z3-solver + crosshair-tool from the local wheelhouse.  Idempotent.
set -e
cd "$(dirname "$0")"
V=.venv
if [ ! -x "$V/bin/python" ] || ! "$V/bin/python" -c "import z3, crosshair" 2>/dev/null; then
  rm -rf "$V"
  /venv/bin/python -m venv "$V"
  SP=$("$V/bin/python" -c "import sysconfig; print(sysconfig.get_paths()['purelib'])")
  printf "import site; site.addsitedir('/venv/lib/python3.12/site-packages')\n" > "$SP/_venv_overlay.pth"
  PIP_NO_INDEX=1 "$V/bin/pip" install -q --no-index --find-links /opt/veriftools/wheels z3-solver crosshair-tool
fi
"$V/bin/python" -c "import z3, crosshair; print('setup ok: z3', z3.get_version_string())"
