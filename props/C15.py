"""C15 - MultiKeyDict / StrategyDict stay coherent under any update history.

MultiKeyDict: *inductive step* from an arbitrary valid representation (symbolic keys/values, distinct as the
representation invariant demands): one assignment / deletion with fresh symbolic arguments must lead to the
representation of the abstract model's post-state.  lazy_core.py is re-executed from /repo with the name `dict`
bound to SymDict (an association list whose key comparison is a solver decision), so `class MultiKeyDict(dict)` and
all its super() calls run on symbolic keys.  In concrete replays the real dict-based class is used and the pre-state
is built through public assignments only.
"""
import itertools
import os
import sys

from symrun.nums import And, Or, Not, Sym, SymInt
from symrun.containers import SymDict

META = {
  "functions": ["MultiKeyDict.__init__/__getitem__/__setitem__/__delitem__/__iter__/key2keys/value2keys (source of "
                "lazy_core.py re-executed with dict := SymDict)", "StrategyDict.__new__/__setitem__/__delitem__/__delattr__/"
                "__call__/__iter__/strategy/default handling"],
  "bounds": {"quick": "inductive step from every valid representation with <=3 live keys in <=3 groups (all shapes), keys and "
                      "values unbounded symbolic integers, operations d[a]=w, d[(a,b)]=w, d[(a,b,a)]=w, del d[a] with fresh "
                      "symbolic a,b,w; StrategyDict: histories of <=3 operations over names {a,b,c} and 3 symbolic strategy "
                      "identities",
             "thorough": "<=5 live keys (all shapes), key tuples of length <=3, StrategyDict histories of <=4 operations"},
  "outside": "unhashable / NaN-like values, more live keys than the bound, constructor with keyword arguments",
  "stubs": ["dict := SymDict when lazy_core.py is re-executed (association list, == decides key identity)"],
  "assumptions": ["representation invariant of the pre-state: keys pairwise distinct, values pairwise distinct, the three maps "
                  "consistent; every such state is reachable by assigning the groups key by key (used by the concrete replay)"],
}
CAPS = {"quick": {"query_s": 10, "max_paths": 60000, "witness_every": 5},
        "thorough": {"query_s": 20, "max_paths": 600000, "witness_every": 23}}

_NS = {}


def _symcore():
  """lazy_core.py re-executed from the working tree with dict := SymDict."""
  repo = os.environ.get("VERIF_REPO", "/repo")
  path = os.path.join(repo, "audiolazy", "lazy_core.py")
  key = (path, os.path.getmtime(path))
  if key not in _NS:
    import ast
    tree = ast.parse(open(path).read(), path)
    class EmptyLiteral(ast.NodeTransformer):      # `{}` inside MultiKeyDict is the same thing as dict(): make it say so
      def visit_Dict(self, node):
        if node.keys: return self.generic_visit(node)
        return ast.copy_location(ast.Call(func=ast.Name(id="dict", ctx=ast.Load()), args=[], keywords=[]), node)
    for node in tree.body:
      if isinstance(node, ast.ClassDef) and node.name == "MultiKeyDict": EmptyLiteral().visit(node)
    ast.fix_missing_locations(tree)
    ns = {"__name__": "audiolazy.lazy_core_symdict", "__package__": "audiolazy", "dict": SymDict}
    exec(compile(tree, path, "exec"), ns)
    assert ns["MultiKeyDict"].__mro__[1] is SymDict
    _NS.clear(); _NS[key] = ns
  return _NS[key]


def _build(ctx, groups):
  """groups: list of (list of keys, value)"""
  if ctx.mode == "concrete":
    from audiolazy.lazy_core import MultiKeyDict
    d = MultiKeyDict()
    for ks, v in groups:
      for k in ks: d[k] = v
    return d
  MKD = _symcore()["MultiKeyDict"]
  d = MKD.__new__(MKD)
  SymDict.__init__(d)
  d._keys_dict = SymDict(); d._inv_dict = SymDict()
  for ks, v in groups:
    kt = tuple(ks)
    d._items.append((kt, v))
    d._inv_dict._items.append((v, kt))
    for k in ks: d._keys_dict._items.append((k, kt))
  return d


def _eq(a, b):
  return bool(a == b)


def model_set(groups, newkeys, v):
  groups = [(list(ks), val) for ks, val in groups]
  tgt = None
  for ks, val in groups:
    if _eq(val, v): tgt = ks
  merged = (tgt or []) + list(newkeys)
  out = []
  for k in reversed(merged):
    if not any(_eq(k, o) for o in out): out.append(k)
  merged = list(reversed(out))
  res = []
  for ks, val in groups:
    if _eq(val, v): continue
    ks2 = [k for k in ks if not any(_eq(k, m) for m in merged)]
    if ks2: res.append((ks2, val))
  res.append((merged, v))
  return res


def model_del(groups, k):
  if not any(any(_eq(k, kk) for kk in ks) for ks, _ in groups): return None
  res = []
  for ks, val in groups:
    ks2 = [kk for kk in ks if not _eq(kk, k)]
    if ks2: res.append((ks2, val))
  return res


def _storage(d):
  """(key tuple, value) pairs of the underlying mapping, in order."""
  if isinstance(d, SymDict): return SymDict.items(d)
  return list(dict.items(d))


def _tuple_eq(a, b):
  return len(a) == len(b) and all(_eq(x, y) for x, y in zip(a, b))


def _check_state(ctx, d, groups, tag):
  st = _storage(d)
  ctx.prove(len(st) == len(groups), tag + ":one-entry-per-value", "storage has %d entries, model %d" % (len(st), len(groups)))
  ctx.prove(len(d) == len(groups), tag + ":len-counts-values")
  inv = d._inv_dict; kd = d._keys_dict
  ctx.prove(len(inv) == len(groups), tag + ":inverse-map-size", "%d vs %d" % (len(inv), len(groups)))
  ctx.prove(len(kd) == sum(len(ks) for ks, _ in groups), tag + ":key-map-size")
  for ks, val in groups:
    kt = tuple(ks)
    found = [v for k, v in st if _tuple_eq(k, kt)]
    ctx.prove(len(found) == 1 and _eq(found[0], val), tag + ":value-owns-its-key-tuple-in-order", "keys=%r" % (kt,))
    ctx.prove(_tuple_eq(d.value2keys(val), kt), tag + ":value2keys")
    for k in ks:
      ctx.prove(_eq(d[k], val), tag + ":d[k]-is-last-value-assigned", "k=%r" % (k,))
      ctx.prove(_tuple_eq(d.key2keys(k), kt), tag + ":key2keys")
  vals = list(d)
  ctx.prove(len(vals) == len(groups), tag + ":iteration-yields-values")
  for (ks, val) in groups:
    ctx.prove(any(_eq(v, val) for v in vals), tag + ":iteration-yields-values", "missing %r" % (val,))


BIG = 10 ** 12      # keys/values are shifted so that equal keys are never the *same* int object in native replays


def h_step(ctx, cfg):
  shape = cfg["shape"]; op = cfg["op"]
  nk = sum(shape)
  keys = [ctx.int("k%d" % i, -50, 50) + BIG for i in range(nk)]
  vals = [ctx.int("v%d" % i, -50, 50) - BIG for i in range(len(shape))]
  for i in range(nk):
    for j in range(i): ctx.assume(keys[i] != keys[j])
  for i in range(len(vals)):
    for j in range(i): ctx.assume(vals[i] != vals[j])
  it = iter(keys)
  groups = [([next(it) for _ in range(n)], v) for n, v in zip(shape, vals)]
  d = _build(ctx, groups)
  a = ctx.int("a", -50, 50) + BIG; b = ctx.int("b", -50, 50) + BIG; w = ctx.int("w", -50, 50) - BIG
  if op == "set1":
    d[a] = w; exp = model_set(groups, [a], w)
  elif op == "set2":
    d[(a, b)] = w; exp = model_set(groups, [a, b], w)
  elif op == "set3":
    d[(a, b, a)] = w; exp = model_set(groups, [a, b, a], w)
  elif op == "set1tuple":
    d[(a,)] = w; exp = model_set(groups, [a], w)
  elif op == "del":
    exp = model_del(groups, a)
    try:
      del d[a]; ok = True
    except KeyError:
      ok = False
    ctx.prove(ok == (exp is not None), "deleting-a-missing-key-raises-KeyError", "raised=%s" % (not ok))
    if exp is None: exp = groups
  elif op == "get":
    present = [val for ks, val in groups if any(_eq(a, k) for k in ks)]
    try:
      got = d[a]; ok = True
    except KeyError:
      ok = False
    ctx.prove(ok == bool(present) and (not ok or _eq(got, present[0])), "lookup")
    ctx.prove(_tuple_eq(d.value2keys(w), tuple([ks for ks, val in groups if _eq(val, w)][0])
                        if any(_eq(val, w) for ks, val in groups) else ()), "value2keys-of-unknown-value-is-empty")
    exp = groups
  else:
    raise ValueError(op)
  _check_state(ctx, d, exp, op)


def h_history(ctx, cfg):
  """Short public-API histories from the empty dict (cross-check of the inductive step's pre-states)."""
  if ctx.mode == "concrete":
    from audiolazy.lazy_core import MultiKeyDict as MKD
    d = MKD()
  else:
    MKD = _symcore()["MultiKeyDict"]
    d = MKD()
    d._keys_dict = SymDict(); d._inv_dict = SymDict()
  groups = []
  for t in range(cfg["steps"]):
    op = ctx.choice("op%d" % t, ["set1", "set2", "del"])
    a = ctx.int("a%d" % t, 0, cfg["U"]) + BIG; b = ctx.int("b%d" % t, 0, cfg["U"]) + BIG
    w = ctx.int("w%d" % t, 0, cfg["U"]) - BIG
    if op == "set1":
      d[a] = w; groups = model_set(groups, [a], w)
    elif op == "set2":
      d[(a, b)] = w; groups = model_set(groups, [a, b], w)
    else:
      exp = model_del(groups, a)
      try:
        del d[a]; ok = True
      except KeyError:
        ok = False
      ctx.prove(ok == (exp is not None), "deleting-a-missing-key-raises-KeyError")
      if exp is not None: groups = exp
  _check_state(ctx, d, groups, "history")


def h_cast(ctx, cfg):
  """MultiKeyDict(mapping / pairs / another MultiKeyDict) starts as the map it was given and is a map of its own
  afterwards: assignments and deletions on either object leave the other one alone."""
  if ctx.mode == "concrete":
    from audiolazy.lazy_core import MultiKeyDict as MKD
  else:
    MKD = _symcore()["MultiKeyDict"]
  U = cfg["U"]
  def step(d, groups, t, tag):
    op = ctx.choice("op%s%d" % (tag, t), ["set1", "set2", "del"])
    lo = 0 if U < 50 else -U
    a = ctx.int("a%s%d" % (tag, t), lo, U) + BIG; b = ctx.int("b%s%d" % (tag, t), lo, U) + BIG
    w = ctx.int("w%s%d" % (tag, t), lo, U) - BIG
    if op == "set1":
      d[a] = w; return model_set(groups, [a], w)
    if op == "set2":
      d[(a, b)] = w; return model_set(groups, [a, b], w)
    exp = model_del(groups, a)
    try:
      del d[a]; ok = True
    except KeyError:
      ok = False
    ctx.prove(ok == (exp is not None), "deleting-a-missing-key-raises-KeyError")
    return groups if exp is None else exp
  how = cfg["how"]
  if how == "mkd":
    # the source is an arbitrary valid dict of the given shape (as in h_step), then one arbitrary operation on each
    shape = cfg["shape"]; nk = sum(shape)
    keys = [ctx.int("k%d" % i, -50, 50) + BIG for i in range(nk)]
    vals = [ctx.int("v%d" % i, -50, 50) - BIG for i in range(len(shape))]
    for i in range(nk):
      for j in range(i): ctx.assume(keys[i] != keys[j])
    for i in range(len(vals)):
      for j in range(i): ctx.assume(vals[i] != vals[j])
    it = iter(keys)
    sgroups = [([next(it) for _ in range(n)], v) for n, v in zip(shape, vals)]
    src = _build(ctx, sgroups)
    d = MKD(src)
    groups = []
    for kt, v in _storage(src): groups = model_set(groups, list(kt), v)
    U = 50
  else:
    n = cfg["pre"]
    ks = [ctx.int("pk%d" % i, 0, U) + BIG for i in range(n)]; vs = [ctx.int("pv%d" % i, 0, U) - BIG for i in range(n)]
    for i in range(n):
      for j in range(i): ctx.assume(ks[i] != ks[j])            # a mapping has distinct keys
    src = None; sgroups = None
    d = MKD(list(zip(ks, vs))) if how == "pairs" else MKD(MKD(list(zip(ks, vs))))
    groups = []
    for k, v in zip(ks, vs): groups = model_set(groups, [k], v)
  _check_state(ctx, d, groups, "cast")
  who = cfg.get("who", "copy")
  for t in range(cfg["post"]):
    if who == "copy": groups = step(d, groups, t, "d")
    else: sgroups = step(src, sgroups, t, "t")
  _check_state(ctx, d, groups, "cast-then-history")
  if src is not None: _check_state(ctx, src, sgroups, "source-of-the-cast")


# ---------------------------------------------------------------------------------------------------
# StrategyDict
# ---------------------------------------------------------------------------------------------------
class Val:
  """Callable strategy with a symbolic identity."""
  def __init__(self, ident, tag):
    self.ident, self.tag, self.__name__ = ident, tag, tag
  def __eq__(self, o): return isinstance(o, Val) and bool(self.ident == o.ident)
  def __ne__(self, o): return not self.__eq__(o)
  def __hash__(self): return hash(int(self.ident))
  def __call__(self, *a, **kw): return ("called", self.tag, a)


NAMES = ["a", "b", "c"]


def h_strategy(ctx, cfg):
  if ctx.mode == "concrete":
    from audiolazy.lazy_core import StrategyDict as SD
    sd = SD("probe")
  else:
    SD = _symcore()["StrategyDict"]
    sd = SD("probe")
    sd._keys_dict = SymDict(); sd._inv_dict = SymDict()
  NV = cfg.get("vals", 3); NAMES_ = NAMES[:cfg.get("names", 3)]
  idents = [ctx.int("id%d" % i, 0, 2) for i in range(NV)]
  vals = [Val(idents[i], "v%d" % i) for i in range(NV)]
  groups = []            # model: list of ([names], Val) in order of most recent assignment
  default = None
  def drop_name(k):
    nonlocal groups, default
    new = []
    for ks, v in groups:
      if k in ks:
        ks2 = [x for x in ks if x != k]
        if len(ks) == 1 and default is not None and v == default: default = None
        if ks2: new.append((ks2, v))
      else:
        new.append((ks, v))
    groups = new
  for t in range(cfg["steps"]):
    OPS_ = ["set1", "set2", "delitem", "delattr", "setdefault", "strategy"]
    script = cfg.get("script") or []
    pinned = script[t] if t < len(script) else None          # [op, names, value index]: a fixed prefix of the history
    if pinned:
      op = pinned[0]; n1 = pinned[1][0]
      v = vals[pinned[2]] if len(pinned) > 2 else vals[0]
    else:
      op = cfg["first"] if (t == 0 and cfg.get("first")) else ctx.choice("op%d" % t, OPS_)
      n1 = ctx.choice("n%d" % t, NAMES_)
      v = vals[ctx.split("vi%d" % t, 0, NV - 1)] if op in ("set1", "set2", "strategy", "setdefault") else vals[0]
    if op in ("set1", "set2", "strategy"):
      if pinned: names = list(pinned[1])
      else: names = [n1] if op == "set1" else [n1, ctx.choice("m%d" % t, NAMES_)]
      if op == "strategy":
        r = sd.strategy(*names, keep_name=True)(v)
        ctx.prove(r is sd, "strategy-decorator-returns-the-dict")
      else:
        sd[tuple(names) if len(names) > 1 else names[0]] = v
      for k in names:
        if any(k in ks for ks, _ in groups): drop_name(k)
      groups = model_set(groups, names, v)
      if default is None: default = v
    elif op == "delitem":
      present = any(n1 in ks for ks, _ in groups)
      try:
        del sd[n1]; ok = True
      except KeyError:
        ok = False
      ctx.prove(ok == present, "delitem-of-missing-name-raises-KeyError")
      if present: drop_name(n1)
    elif op == "delattr":
      present = any(n1 in ks for ks, _ in groups)
      try:
        delattr(sd, n1); ok = True
      except AttributeError:
        ok = False
      ctx.prove(ok == present, "delattr-of-missing-name-raises-AttributeError", "ok=%s present=%s" % (ok, present))
      if present: drop_name(n1)
    elif op == "setdefault":
      sd.default = v; default = v
    # ---- observables after every step
    for k in NAMES:
      owner = [val for ks, val in groups if k in ks]
      if owner:
        ctx.prove(hasattr(sd, k) and getattr(sd, k) == owner[0], "every-name-is-an-attribute-equal-to-the-item",
                  "step %d name %s" % (t, k))
        ctx.prove(sd[k] == owner[0], "item-lookup", "step %d name %s" % (t, k))
      else:
        ctx.prove(not hasattr(sd, k), "removed-name-is-no-attribute", "step %d name %s" % (t, k))
        ctx.prove(k not in sd._keys_dict, "removed-name-is-no-key")
    ctx.prove(len(sd) == len(groups), "len-counts-strategies", "step %d: %d vs %d" % (t, len(sd), len(groups)))
    its = list(sd)
    ctx.prove(len(its) == len(groups) and all(any(x == val for x in its) for ks, val in groups), "iteration-yields-strategies")
    if default is not None:
      ctx.prove("default" in vars(sd) and sd.default == default, "default-is-first-stored-or-rechosen",
                "step %d" % t)
      ctx.prove(sd(7) == ("called", default.tag, (7,)) or sd(7)[0] == "called" and sd.default == default, "call-calls-the-default")
    else:
      ctx.prove("default" not in vars(sd), "default-removed-when-it-loses-all-names", "step %d" % t)
      ctx.prove(sd(7) is NotImplemented, "call-without-default-is-NotImplemented")
    for ks, val in groups:
      ctx.prove(tuple(sd.key2keys(ks[0])) == tuple(ks), "names-in-order-of-most-recent-assignment", "step %d" % t)


def _shapes(maxkeys):
  out = []
  for n in range(0, maxkeys + 1):
    for s in itertools.product(range(1, maxkeys + 1), repeat=n):
      if sum(s) <= maxkeys: out.append(list(s))
  return out


def tasks(tier, seed):
  big = tier == "thorough"
  E = 5 if big else 3
  T = []
  for shape in _shapes(E):
    for op in ("set1", "set2", "set3", "del", "get", "set1tuple"):
      if sum(shape) >= 5 and op == "set3": continue
      T.append(("h_step", {"shape": shape, "op": op}))
  T.append(("h_history", {"steps": 2 if not big else 3, "U": 2}))
  for how in ("pairs", "mkd-of-pairs"):
    T.append(("h_cast", {"how": how, "pre": 2 if not big else 3, "post": 1 if not big else 2, "U": 2}))
  for shape in [[], [1], [2], [1, 1], [2, 1]] + ([[1, 2], [3], [1, 1, 1]] if big else []):
    for who in ("copy", "source"):
      T.append(("h_cast", {"how": "mkd", "shape": shape, "post": 1, "U": 50, "who": who}))
  # three names, three strategies: a fixed prefix (a single-name strategy, then a two-name one, optionally the first name
  # removed again) followed by one or two free steps
  pre = [["set1", ["a"], 0], ["set2", ["b", "c"], 1]]
  T.append(("h_strategy", {"steps": 3, "script": pre}))
  T.append(("h_strategy", {"steps": 4, "script": pre + [["delitem", ["a"]]]}))
  T.append(("h_strategy", {"steps": 4, "script": pre + [["delattr", ["b"]]]}))
  if big: T.append(("h_strategy", {"steps": 4, "script": pre}))
  for first in ("set1", "set2", "delitem", "delattr", "setdefault", "strategy"):
    T.append(("h_strategy", {"steps": 2, "first": first}))
    T.append(("h_strategy", {"steps": 3, "first": first, "names": 2, "vals": 2}))

    if big:
      T.append(("h_strategy", {"steps": 3, "first": first}))
      T.append(("h_strategy", {"steps": 4, "first": first, "names": 2, "vals": 2}))
  return T
