"""C13 - designed filters meet their documented gain, cut-off and pole contracts."""
import cmath
import math
from fractions import Fraction

from symrun.nums import And, Or, Not, Sym, SymComplex, frac_of_float
from symrun.stubs import patched, TrigStub, SqrtStub, ExpStub
from props.C05 import ref_filter

META = {
  "functions": ["lowpass.pole/z/pole_exp/z_exp", "highpass.pole/z/pole_exp/z_exp", "resonator.poles_exp/freq_poles_exp/z_exp/"
                "freq_z_exp", "comb.fb/tau/ff", "gammatone.sampled/slaney/klapuri", "ZFilter algebra and freq_response underneath"],
  "bounds": {"quick": "cut-off / centre frequency: every angle in the open interval (0, pi) (symbolic (cos, sin) pair); bandwidth "
                      "any positive real; comb delays 1..3 with symbolic alpha / tau>0; gammatone: klapuri claimed, sampled eta=1 "
                      "attempted but claimed only in the thorough tier (slaney only in the thorough tier, as an optional attempt: its sqrt(2)-laden zero tests hit the solver cap); stream-valued parameters: streams of 2 symbolic angles for the 8 lowpass/highpass designs",
             "thorough": "adds gammatone.sampled eta<=3 (optional beyond 2), comb delays <=5, monotonicity on two probe frequencies"},
  "outside": "IEEE rounding; the documented 'unreliable outside [0, pi/6]' cut-off accuracy of the *_exp strategies (only their "
             "gain / pole clauses are claimed, as in the property); numeric value of exp (contract stub)",
  "stubs": ["cos/sin of a symbolic angle theta: one (c, s) pair with c^2+s^2=1, sign facts of the declared range, integer "
            "multiples by de Moivre", "sqrt: fork on x<0 (ValueError), else fresh r>=0 with r^2=x (also for the constant sqrt(2))",
            "exp / e**x: fresh E>0 per distinct argument, E<1 iff x<0, additive links between registered arguments; the argument "
            "is recorded so the check can assert what was exponentiated", "cmath.exp on i*k*theta: de Moivre"],
  "assumptions": ["exact real arithmetic", "bandwidth > 0, tau > 0"],
}
CAPS = {"quick": {"query_s": 30, "max_paths": 3000, "witness_every": 1, "witness_floats": True, "path_s": 120},
        "thorough": {"query_s": 120, "max_paths": 20000, "witness_every": 1, "witness_floats": True, "path_s": 600}}


class Env:
  """Installs the transcendental contract stubs for one path."""
  def __init__(self, ctx):
    import audiolazy.lazy_filters as lf
    import audiolazy.lazy_auditory as la
    from audiolazy.lazy_misc import elementwise
    self.ctx = ctx
    self.trig = TrigStub(ctx); self.sq = SqrtStub(); self.ex = ExpStub()
    sym = ctx.mode == "sym"
    cosf = elementwise("x", 0)(self.trig.cos); sinf = elementwise("x", 0)(self.trig.sin)
    sqrtf = elementwise("x", 0)(self.sq); expf = elementwise("x", 0)(self.ex)
    acosf = elementwise("x", 0)(self.trig.acos)
    if sym:
      self.cm = [patched(lf, cos=cosf, sin=sinf, sqrt=sqrtf, exp=expf, acos=acosf, complex_exp=self.trig.cexp),
                 patched(la, cos=cosf, sin=sinf, sqrt=sqrtf, exp=expf, acos=acosf)]
      ctx.rpow_hook = self.ex.rpow
      ctx.sqrt_hook = self.sq
    else:
      self.cm = []
  def __enter__(self):
    for c in self.cm: c.__enter__()
    return self
  def __exit__(self, *a):
    for c in reversed(self.cm): c.__exit__(*a)
    return False

  def angle(self, name, lo=0, hi=1):
    return self.trig.angle(name, lo, hi)

  def unit(self, th):
    """e^{-j theta}"""
    if self.ctx.mode == "sym":
      c, s = self.trig.cs_of(th)
      return SymComplex(c, -s)
    return cmath.exp(-1j * th)

  def cs(self, th):
    if self.ctx.mode == "sym": return self.trig.cs_of(th)
    return math.cos(th), math.sin(th)


def _terms(filt):
  return dict(filt.numpoly.terms()), dict(filt.denpoly.terms())


def _at(coefs, zi):
  acc = 0
  for k, c in coefs.items(): acc = acc + c * zi ** k
  return acc


def _mag2(v):
  if isinstance(v, SymComplex): return v.re * v.re + v.im * v.im
  if isinstance(v, complex): return v.real ** 2 + v.imag ** 2
  return v * v


def _gain2_is(ctx, filt, zi, val, clause, detail=""):
  """|H(zi)|^2 == val, cross-multiplied"""
  n, d = _terms(filt)
  N, D = _mag2(_at(n, zi)), _mag2(_at(d, zi))
  ctx.prove(ctx.eq(N, val * D), clause, detail)
  ctx.prove(Not(ctx.eq(D, 0)) if ctx.mode == "sym" else abs(D) > 1e-12, clause + ":finite")


def h_lowhigh(ctx, cfg):
  from audiolazy import lowpass, highpass
  kind, strat = cfg["kind"], cfg["strategy"]
  with Env(ctx) as E:
    th = E.angle("wc")
    filt = (lowpass if kind == "lowpass" else highpass)[strat](th)
    n, d = _terms(filt)
    ctx.prove(set(n) <= {0, 1} and set(d) <= {0, 1}, "first-order-design")
    zi_pass = 1 if kind == "lowpass" else -1
    _gain2_is(ctx, filt, zi_pass, 1, "unit-gain-at-%s" % ("DC" if kind == "lowpass" else "Nyquist"))
    # pole strictly inside the unit circle: root of a0 + a1 z^-1  ->  z = -a1/a0
    a0, a1 = d.get(0, 0), d.get(1, 0)
    ctx.prove(ctx.lt(a1 * a1, a0 * a0), "pole-strictly-inside-the-unit-circle")
    if strat in ("pole", "z"):
      _gain2_is(ctx, filt, E.unit(th), Fraction(1, 2), "half-power-at-the-cut-off")
      if cfg.get("monotone"):
        # two probe frequencies 0 <= w1 < w2 <= pi
        if ctx.mode == "sym":
          w1 = E.trig.angle("w1"); w2 = E.trig.angle("w2")
          c1, s1 = E.trig.cs_of(w1); c2, s2 = E.trig.cs_of(w2)
          ctx.assume(And(s1 >= 0, s2 >= 0, c1 > c2))
        else:
          w1 = E.trig.angle("w1"); w2 = E.trig.angle("w2")
          if not (0 <= w1 < w2 <= math.pi): ctx.exclude("probe frequencies out of order in the float model")
        M1n, M1d = _mag2(_at(n, E.unit(w1))), _mag2(_at(d, E.unit(w1)))
        M2n, M2d = _mag2(_at(n, E.unit(w2))), _mag2(_at(d, E.unit(w2)))
        if kind == "lowpass":
          ctx.prove(ctx.le(M2n * M1d, M1n * M2d), "magnitude-response-monotone (decreasing)")
        else:
          ctx.prove(ctx.le(M1n * M2d, M2n * M1d), "magnitude-response-monotone (increasing)")


def h_lowhigh_stream(ctx, cfg):
  """Stream-valued cut-off: coefficient streams equal the constant designs sample by sample."""
  from audiolazy import lowpass, highpass, Stream
  kind, strat = cfg["kind"], cfg["strategy"]
  design = (lowpass if kind == "lowpass" else highpass)[strat]
  with Env(ctx) as E:
    ths = [E.angle("wc%d" % i) for i in range(2)]
    filt = design(Stream(list(ths)))
    n, d = _terms(filt)
    consts = [_terms(design(t)) for t in ths]
    for name, coefs, idx in (("num", n, 0), ("den", d, 1)):
      for k, v in coefs.items():
        vals = list(v) if isinstance(v, Stream) else [v, v]
        ctx.prove(len(vals) == 2, "coefficient-stream-length", "%s[%d] has %d values" % (name, k, len(vals)))
        for i in range(min(2, len(vals))):
          ctx.prove(ctx.eq(vals[i] * consts[i][1].get(0, 0), consts[i][idx].get(k, 0) * d_lead(d, i)) if False else
                    ctx.eq(vals[i], consts[i][idx].get(k, 0)), "stream-design-equals-constant-design-sample-by-sample",
                    "%s[%d] sample %d" % (name, k, i))


def d_lead(d, i):
  return 1


def _invert_exp(ctx, bw, k):
  """Native replays: the exp stub's model value E stands for exp(bw/k); instantiate the bandwidth so that the real exp
  takes exactly that value (bw = k*ln E), otherwise the model would not be a point of the real function."""
  if ctx.mode == "concrete":
    E = ctx.model.get("exp!1")
    if E is not None and 0 < float(E) < 1:
      return k * math.log(float(E))
    return float(bw)
  return bw


def h_resonator(ctx, cfg):
  from audiolazy import resonator
  strat = cfg["strategy"]
  with Env(ctx) as E:
    th = E.angle("f")
    bw = ctx.real("bw", 0, cfg.get("bwmax"), lo_open=True)
    bw = _invert_exp(ctx, bw, -2.0)
    filt = resonator[strat](th, bw)
    n, d = _terms(filt)
    # pole radius exp(-bandwidth/2): the exponentiated argument and a2 = R^2
    if ctx.mode == "sym":
      args = E.ex.args
      ctx.prove(len(args) >= 1 and bool(ctx.eq(args[0][0], -bw / 2)), "R-is-exp(-bandwidth/2)", "exp was applied to %r" % (args[:1],))
      R = args[0][1]
    else:
      R = math.exp(-bw / 2)
    a0, a1, a2 = d.get(0, 0), d.get(1, 0), d.get(2, 0)
    ctx.prove(ctx.eq(a2, R * R * a0), "pole-radius-is-R (a2 = R^2)")
    c, s = E.cs(th)
    if strat.startswith("freq_"):
      ctx.prove(ctx.eq(a1, -2 * R * c * a0), "denominator-frequency-is-freq (a1 = -2 R cos freq)")
      # peak gain is one: resonant frequency w_r with cos(w_r) = cos(freq)(1+R^2)/(2R) (poles) or cos(freq) 2R/(1+R^2) (zeros)
      if ctx.mode == "sym":
        wr = E.trig.angle("wr"); cr, sr = E.trig.cs_of(wr)
        if strat == "freq_poles_exp": ctx.assume(cr * 2 * R == c * (1 + R * R))
        else: ctx.assume(cr * (1 + R * R) == c * 2 * R)
        _gain2_is(ctx, filt, SymComplex(cr, -sr), 1, "peak-gain-is-one-at-the-resonant-frequency")
      else:
        cr = c * (1 + R * R) / (2 * R) if strat == "freq_poles_exp" else c * 2 * R / (1 + R * R)
        if abs(cr) > 1: ctx.exclude("no resonant frequency on the unit circle for these parameters")
        _gain2_is(ctx, filt, cmath.exp(-1j * math.acos(cr)), 1, "peak-gain-is-one-at-the-resonant-frequency")
    else:
      _gain2_is(ctx, filt, E.unit(th), 1, "unit-gain-at-the-resonant-frequency")
    # stability (Jury): |a2| < a0, |a1| < a0 + a2 (a0 = 1 here)
    ctx.prove(ctx.eq(a0, 1), "monic-denominator")
    ctx.prove(And(ctx.lt(a2, 1), ctx.lt(-1, a2)), "stable:|a2|<1")
    if cfg.get("jury", True) and strat in ("poles_exp", "freq_poles_exp", "freq_z_exp"):
      ctx.prove(And(ctx.lt(a1, 1 + a2), ctx.lt(-a1, 1 + a2)), "stable:|a1|<1+a2")


def h_comb(ctx, cfg):
  from audiolazy import comb
  strat = cfg["strategy"]; N = cfg["N"]
  name = cfg.get("name", strat)          # every documented name of the strategy, item and attribute access, default call
  fn = comb if name == "default" else (getattr(comb, name) if cfg.get("attr") else comb[name])
  with Env(ctx) as E:
    delay = ctx.split("delay", cfg.get("Dmin", 1), cfg["D"])
    x = ctx.reals("x", N)
    # an explicit initial state: y[-1], y[-2], ... (feedback comb) as the `memory` of the call
    mem = ctx.reals("m", delay) if cfg.get("memory") else None
    if strat == "tau":
      tau = ctx.real("tau", 0, None, lo_open=True)
      filt = fn(delay, tau)
      if ctx.mode == "sym":
        args = E.ex.args
        ctx.prove(len(args) == 1 and bool(ctx.eq(args[0][0], -Fraction(int(delay)) / tau)), "alpha-is-e^(-delay/tau)",
                  "exponent %r" % (args[:1],))
        alpha = args[0][1]
        ctx.prove(And(alpha > 0, alpha < 1), "0<alpha<1-for-positive-tau")
      else:
        alpha = math.e ** (-delay / tau)
    else:
      alpha = ctx.real("alpha")
      filt = fn(delay, alpha)
    out = list(filt(list(x), zero=0) if mem is None else filt(list(x), memory=list(mem), zero=0))
    ctx.prove(len(out) == N, "comb:one-output-per-input")
    for n in range(min(N, len(out))):
      if strat == "ff":
        want = x[n] + (alpha * x[n - delay] if n - delay >= 0 else 0)
      else:
        past = out[n - delay] if n - delay >= 0 else (mem[delay - n - 1] if mem is not None else 0)
        want = x[n] + alpha * past
      ctx.observe("y", out[n])
      ctx.prove(ctx.eq(out[n], want), "comb-difference-equation", "%s n=%d" % (strat, n))
    nn, dd = _terms(filt)
    if strat == "ff":
      ctx.prove(set(dd) == {0} and set(nn) <= {0, int(delay)}, "comb.ff-is-1+alpha*z^-delay")
    else:
      ctx.prove(set(nn) == {0} and set(dd) <= {0, int(delay)}, "comb.fb-is-1/(1-alpha*z^-delay)")
  if strat == "tau" and cfg.get("inf"):
    f = comb.tau(3)          # tau = inf -> alpha = 1
    ctx.prove(list(f([1, 0, 0, 0, 0, 0, 0], zero=0)) == [1, 0, 0, 1, 0, 0, 1], "comb.tau-default-is-lossless")


def h_gammatone(ctx, cfg):
  from audiolazy import gammatone, CascadeFilter
  strat = cfg["strategy"]
  with Env(ctx) as E:
    th = E.angle("f")
    bw = ctx.real("bw", 0, cfg.get("bwmax", 1), lo_open=True)
    bw = _invert_exp(ctx, bw, -1.0)
    kw = {"eta": cfg["eta"]} if strat == "sampled" else {}
    filt = gammatone[strat](th, bw, **kw)
    ctx.prove(isinstance(filt, CascadeFilter), "gammatone-returns-a-cascade")
    want_sections = cfg["eta"] if strat == "sampled" else 4
    ctx.prove(len(filt) == want_sections, "number-of-sections", "%d" % len(filt))
    zi = E.unit(th)
    for i, sec in enumerate(filt):
      n, d = _terms(sec)
      a0, a1, a2 = d.get(0, 0), d.get(1, 0), d.get(2, 0)
      ctx.prove(set(d) <= {0, 1, 2}, "second-order-section")
      # Jury stability conditions on a0 + a1 z^-1 + a2 z^-2 with a0 > 0
      if ctx.mode == "sym":
        ctx.prove(a0 > 0, "section-leading-coefficient-positive", "section %d" % i)
      ctx.prove(And(ctx.lt(a2, a0), ctx.lt(-a0, a2), ctx.lt(a1, a0 + a2), ctx.lt(-a1, a0 + a2)),
                "section-is-stable (Jury conditions)", "section %d" % i)
      _gain2_is(ctx, sec, zi, 1, "section-has-unit-gain-at-the-centre-frequency", "section %d" % i)
    # every call designs a cascade of its own: editing one result (a CascadeFilter is a plain list of sections) must not
    # show up in a later design with the same parameters
    first = list(filt)
    filt.append(filt[0]); del filt[1:2]
    again = gammatone[strat](th, bw, **kw)
    ctx.prove(again is not filt and len(again) == want_sections, "every-design-is-a-fresh-cascade",
              "second design: %d sections, same object: %s" % (len(again), again is filt))
    for i, (s1, s2) in enumerate(zip(first, again)):
      n1, d1 = _terms(s1); n2, d2 = _terms(s2)
      ctx.prove(And(*[ctx.eq(n1.get(k, 0), n2.get(k, 0)) for k in set(n1) | set(n2)] +
                     [ctx.eq(d1.get(k, 0), d2.get(k, 0)) for k in set(d1) | set(d2)]),
                "every-design-is-a-fresh-cascade", "section %d of the second design differs from the first design's" % i)


def tasks(tier, seed):
  big = tier == "thorough"
  T = []
  for kind in ("lowpass", "highpass"):
    for strat in ("pole", "z", "pole_exp", "z_exp"):
      T.append(("h_lowhigh", {"kind": kind, "strategy": strat}))
      if strat in ("pole", "z"):
        T.append(("h_lowhigh", {"kind": kind, "strategy": strat, "monotone": True}, {"optional": not big and False}))
      T.append(("h_lowhigh_stream", {"kind": kind, "strategy": strat}))
  for strat in ("poles_exp", "freq_poles_exp", "z_exp", "freq_z_exp"):
    T.append(("h_resonator", {"strategy": strat}))
  for strat in ("fb", "tau", "ff"):
    T.append(("h_comb", {"strategy": strat, "D": 3 if not big else 5, "N": 5 if not big else 8, "inf": True}))
    if strat != "ff":
      # echoes of an explicit initial state, short and long delay lines
      T.append(("h_comb", {"strategy": strat, "D": 3, "N": 4, "memory": True}))
      T.append(("h_comb", {"strategy": strat, "Dmin": 17 if not big else 15, "D": 18 if not big else 20, "N": 3, "memory": True}))
    else:
      T.append(("h_comb", {"strategy": strat, "Dmin": 17, "D": 18, "N": 20}))
  for strat, names in (("fb", ("default", "alpha", "fb_alpha", "feedback_alpha")), ("tau", ("fb_tau", "feedback_tau")),
                       ("ff", ("ff_alpha", "feedforward_alpha"))):
    for i, name in enumerate(names):
      T.append(("h_comb", {"strategy": strat, "name": name, "attr": i % 2 == 1, "D": 2, "N": 4}))
  T.append(("h_gammatone", {"strategy": "klapuri"}))
  if big: T.append(("h_gammatone", {"strategy": "slaney"}, {"optional": True, "task_s": 900}))
  # sampled eta=1: its Jury obligation takes ~20 s of nlsat here and went over a 30 s cap on a loaded machine:
  # attempted (optional) in the quick tier, claimed in the thorough tier with a 150 s cap
  T.append(("h_gammatone", {"strategy": "sampled", "eta": 1}, {"optional": not big, "query_s": 150}))
  if big:
    T.append(("h_gammatone", {"strategy": "sampled", "eta": 2}, {"optional": True, "task_s": 900}))
    T.append(("h_gammatone", {"strategy": "sampled", "eta": 3}, {"optional": True, "task_s": 900}))
  return T
