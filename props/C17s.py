"""C17 (content half) - what one player hands to the device, decided by symrun on the real AudioThread.run.

The BMC in props/C17.py treats chunks as abstract indices (the schedule is its subject).  This harness runs the real
`AudioThread.__init__` and `AudioThread.run` sequentially (one player, nobody interferes) on symbolic audio with the
struct/array codecs replaced by the contract stubs of C18, and states the first sentence of the property on the calls
the backend receives: every write carries exactly chunk_size frames, the concatenation of the written items is the
iterable followed by zeros up to a chunk boundary, the device stream is opened with the requested format / channels /
buffer size, closed once, and the manager is told that the thread finished.
"""
import sys
import types

from symrun.nums import And, Or, Not, Sym, SymInt
from symrun.loader import load_with_fakes
from props import C18

META = {
  "functions": ["AudioThread.__init__", "AudioThread.run (one player, sequential)", "chunks.struct / chunks.array as called by run",
                "lazy_misc.blocks"],
  "bounds": {"quick": "audio length 0..5 (symbolic items), chunk_size 1..3, channels 1..2, formats f i h b B, audio given as "
                      "list / tuple / generator / iterator / Stream, both chunk strategies as chunks.default",
             "thorough": "audio length 0..9, chunk_size 1..4"},
}


def _fake_portaudio(writes):
  m = types.ModuleType("_portaudio")
  def write_stream(st, chunk, nframes, flag=False):
    writes.append((st, chunk, nframes))
  m.write_stream = write_stream
  return m


class _Stream:
  def __init__(self, log):
    self._stream = object(); self.log = log
  def stop_stream(self): self.log.append("stop_stream")
  def start_stream(self): self.log.append("start_stream")
  def close(self): self.log.append("close")


class _PA:
  def __init__(self, log): self.log, self.opened = log, []
  def open(self, **kw):
    self.opened.append(kw); self.log.append("open")
    return _Stream(self.log)


class _Manager:
  def __init__(self, log):
    self._pa = _PA(log); self._threads = []; self.log = log
  def thread_finished(self, th):
    self._threads.remove(th); self.log.append("thread_finished")


def h_run_content(ctx, cfg):
  dfmt, kind, channels, strat = cfg["dfmt"], cfg["kind"], cfg["channels"], cfg["strategy"]
  n = ctx.split("len", 0, cfg["L"]); cs = ctx.split("chunk_size", 1, cfg["S"])
  if dfmt in C18._IRANGE:
    lo, hi = C18._IRANGE[dfmt]
    audio = [ctx.int("a%d" % i, lo, hi) for i in range(n)]
  else:
    audio = [ctx.int("a%d" % i, -64, 64) for i in range(n)]
    audio = [v / 8.0 for v in audio] if ctx.mode == "concrete" else [v / 8 for v in audio]
  writes, log = [], []
  saved = sys.modules.get("_portaudio")
  sys.modules["_portaudio"] = _fake_portaudio(writes)
  try:
    if ctx.mode == "sym":
      ns = C18._sym_io_module()
      AudioThread, chunks = ns["AudioThread"], ns["chunks"]
    else:
      from audiolazy.lazy_io import AudioThread, chunks
    from audiolazy import Stream
    old_default = chunks.default
    chunks.default = chunks[strat]
    try:
      src = {"list": lambda: list(audio), "tuple": lambda: tuple(audio), "gen": lambda: (x for x in audio),
             "iter": lambda: iter(list(audio)), "stream": lambda: Stream(list(audio))}[kind]()
      man = _Manager(log)
      # the deprecated keyword `nchannels` still has to mean the same thing as `channels`
      chkw = {"nchannels": channels} if cfg.get("legacy_kw") else {"channels": channels}
      th = AudioThread(man, src, chunk_size=cs, dfmt=dfmt, **chkw)
      man._threads.append(th)
      th.run()
    finally:
      chunks.default = old_default
  finally:
    if saved is None: sys.modules.pop("_portaudio", None)
    else: sys.modules["_portaudio"] = saved
  ctx.prove(len(man._pa.opened) == 1, "one-device-stream-opened")
  kw = man._pa.opened[0]
  ctx.prove(kw.get("channels") == channels and kw.get("frames_per_buffer") == cs and kw.get("output") is True,
            "device-stream-opened-with-the-requested-channels-and-buffer", repr(sorted(kw.items())))
  size = cs * channels
  want = list(audio)
  while len(want) % size: want.append(0)
  ctx.prove(len(writes) * size == len(want), "number-of-chunks-written", "%d writes of %d items for %d samples" % (len(writes), size, n))
  got = []
  for st, chunk, nframes in writes:
    ctx.prove(st is th.stream._stream, "written-to-the-player's-own-device-stream")
    ctx.prove(nframes == cs, "every-write-carries-chunk_size-frames", "nframes=%r" % (nframes,))
    vals, eff, body = C18._decode(chunk, size, dfmt, None)
    ctx.prove(body == str(size) + dfmt, "every-chunk-holds-chunk_size*channels-items-of-the-format", body)
    got.extend(vals)
  ctx.prove(len(got) == len(want) and (And(*[ctx.eq(a, b) for a, b in zip(got, want)]) if want else True),
            "device-receives-the-iterable-then-zero-padding-in-order")
  ctx.prove(log.count("close") == 1 and log.count("thread_finished") == 1 and th not in man._threads,
            "stream-closed-once-and-manager-told", repr(log))
  ctx.prove(log.index("close") > max([i for i, e in enumerate(log) if e == "open"]) if "close" in log else False,
            "closed-after-the-last-write")


def tasks(tier, seed):
  big = tier == "thorough"
  T = []
  for dfmt in "fihbB":
    for kind in ("list", "tuple", "gen", "iter", "stream"):
      for channels in (1, 2):
        for strat in ("struct", "array"):
          if not big and strat == "array" and kind not in ("list", "gen"): continue
          T.append(("h_run_content", {"dfmt": dfmt, "kind": kind, "channels": channels, "strategy": strat,
                                      "L": 9 if big else 5, "S": 4 if big else 3}))
  for channels in (1, 2):
    T.append(("h_run_content", {"dfmt": "f", "kind": "list", "channels": channels, "strategy": "struct", "L": 5, "S": 2, "legacy_kw": True}))
  return T
