"""C07 - Poly is an exact commutative ring with evaluation, composition and calculus."""
import itertools
from fractions import Fraction
from symrun.nums import Sym, And, Or, Not

META = {
  "functions": ["lazy_poly.Poly.__init__", "Poly.__add__/__radd__/__sub__/__neg__", "Poly.__mul__/__rmul__",
                "Poly.__pow__", "Poly.__truediv__", "Poly.__call__ (composition, x=0 shortcut, Horner-like, general)",
                "Poly.diff", "Poly.integrate", "Poly.__eq__/__ne__/__hash__", "Poly.order/values/terms/__getitem__",
                "lagrange.func", "lagrange.poly"],
  "bounds": {"quick": "operands with <=3 terms, exponents in [-2,3], powers n<=3, 3 interpolation points, "
                      "all coefficients / points symbolic reals; hash clause over the finite coefficient domain {-1,0,1,2}",
             "thorough": "operands with <=4 terms, n<=4, 4 interpolation points"},
  "outside": "float/complex exponents, Stream coefficients (C06), polynomials with more terms than the bound, "
             "hash consistency outside the finite coefficient domain, IEEE rounding",
  "stubs": [],
  "assumptions": ["interpolation abscissae pairwise distinct (the property's precondition)",
                  "evaluation point non-zero whenever a negative exponent is present",
                  "exact real arithmetic"],
}
CAPS = {"quick": {"query_s": 20, "max_paths": 8000}, "thorough": {"query_s": 60, "max_paths": 60000}}


def _poly(ctx, prefix, supp):
  from audiolazy import Poly
  cs = ctx.reals(prefix, len(supp))
  return Poly(dict(zip(supp, cs))), dict(zip(supp, cs))


def _terms(p):
  return dict(p.terms())


def _radd(a, b):
  out = dict(a)
  for k, v in b.items(): out[k] = out[k] + v if k in out else v
  return out


def _rmul(a, b):
  out = {}
  for k1, v1 in a.items():
    for k2, v2 in b.items():
      out[k1 + k2] = out[k1 + k2] + v1 * v2 if k1 + k2 in out else v1 * v2
  return out


def _rscale(a, c):
  return {k: v * c for k, v in a.items()}


def _same(ctx, p, ref):
  """Poly p has exactly the coefficients of the reference dict (missing = 0)."""
  t = _terms(p) if not isinstance(p, dict) else p
  cl = []
  for k in set(t) | set(ref):
    cl.append(ctx.eq(t.get(k, 0), ref.get(k, 0)))
  return And(*cl) if cl else True


def _exact(ctx, p, clause):
  """exact (int/Fraction) inputs must give exact coefficients - never a rounded float"""
  ctx.prove_native(all(not isinstance(v, float) for v in _terms(p).values()), "exact-coefficients-stay-exact",
                   "%s: %r" % (clause, {k: type(v).__name__ for k, v in _terms(p).items()}))


def _nozero(ctx, p, clause):
  for k, v in _terms(p).items():
    ctx.prove(v != 0, "no-zero-coefficient-stored", "%s power %s" % (clause, k))


def _observe(ctx, p):
  for k, v in sorted(_terms(p).items()): ctx.observe("c%s" % k, v)


def h_addmul(ctx, cfg):
  P, pc = _poly(ctx, "a", cfg["sp"]); Q, qc = _poly(ctx, "b", cfg["sq"])
  s, d, m, n = P + Q, P - Q, P * Q, -P
  _observe(ctx, s); _observe(ctx, m)
  ctx.prove(_same(ctx, s, _radd(pc, qc)), "add-is-termwise-sum")
  ctx.prove(_same(ctx, d, _radd(pc, _rscale(qc, -1))), "sub-is-termwise-difference")
  ctx.prove(_same(ctx, m, _rmul(pc, qc)), "mul-is-convolution")
  ctx.prove(_same(ctx, n, _rscale(pc, -1)), "neg")
  ctx.prove(_same(ctx, Q + P, _terms(s)), "add-commutative")
  ctx.prove(_same(ctx, Q * P, _terms(m)), "mul-commutative")
  ctx.prove(len(P - P) == 0, "p-minus-p-is-empty", "terms=%r" % (_terms(P - P),))
  for r, nm in ((s, "add"), (d, "sub"), (m, "mul"), (n, "neg"), (P, "init")):
    _nozero(ctx, r, nm)
  # scalar operands on either side
  c = ctx.real("c")
  ctx.prove(_same(ctx, P * c, _rscale(pc, c)), "scalar-mul")
  ctx.prove(_same(ctx, c * P, _rscale(pc, c)), "scalar-rmul")
  ctx.prove(_same(ctx, P + c, _radd(pc, {0: c})), "scalar-add")
  ctx.prove(_same(ctx, c - P, _radd({0: c}, _rscale(pc, -1))), "scalar-rsub")
  _nozero(ctx, P * c, "scalar-mul"); _nozero(ctx, c - P, "scalar-rsub")
  # order / values
  if all(k >= 0 for k in _terms(s)):
    t = _terms(s)
    order = max(t) if t else 0
    ctx.prove(s.order == order, "order")
    vals = list(s.values())
    want = [t.get(k, 0) for k in range(order + 1)] if t else []
    ctx.prove(len(vals) == len(want) and And(*[ctx.eq(x, y) for x, y in zip(vals, want)]), "values")


def h_assoc(ctx, cfg):
  P, pc = _poly(ctx, "a", cfg["sp"]); Q, qc = _poly(ctx, "b", cfg["sq"]); R, rc = _poly(ctx, "c", cfg["sr"])
  ctx.prove(_same(ctx, (P + Q) + R, _radd(_radd(pc, qc), rc)), "add-associative-l")
  ctx.prove(_same(ctx, P + (Q + R), _radd(_radd(pc, qc), rc)), "add-associative-r")
  ref = _rmul(_rmul(pc, qc), rc)
  ctx.prove(_same(ctx, (P * Q) * R, ref), "mul-associative-l")
  ctx.prove(_same(ctx, P * (Q * R), ref), "mul-associative-r")
  _nozero(ctx, (P * Q) * R, "mul3")


def h_distrib(ctx, cfg):
  P, pc = _poly(ctx, "a", cfg["sp"]); Q, qc = _poly(ctx, "b", cfg["sq"]); R, rc = _poly(ctx, "c", cfg["sr"])
  ref = _rmul(pc, _radd(qc, rc))
  ctx.prove(_same(ctx, P * (Q + R), ref), "distributive-l")
  ctx.prove(_same(ctx, P * Q + P * R, ref), "distributive-r")
  ctx.prove(_same(ctx, (Q + R) * P, ref), "distributive-rl")
  _nozero(ctx, P * Q + P * R, "distrib")


def h_pow_negative(ctx, cfg):
  """Negative exponents: a monomial has an inverse (a Laurent monomial); for a polynomial with several terms the
  n-fold product does not exist as a Poly, so the operator must refuse - whatever it *returns* has to satisfy
  R * P**|n| == 1, which is what "p**n" means."""
  P, pc = _poly(ctx, "a", cfg["sp"])
  n = cfg["n"]
  for c in pc.values(): ctx.assume(c != 0)
  try:
    R = P ** n
  except (NotImplementedError, ValueError, TypeError, ZeroDivisionError) as e:
    ctx.prove(len(pc) >= 2, "negative-power-of-a-monomial-is-defined", "raised %s" % type(e).__name__)
    return
  prod = _terms(R)
  for _ in range(-n): prod = _rmul(prod, pc)
  ctx.prove(_same_dict(ctx, prod, {0: 1}), "negative-power-times-|n|-fold-product-is-one", "n=%d" % n)


def _same_dict(ctx, a, b):
  return And(*[ctx.eq(a.get(k, 0), b.get(k, 0)) for k in set(a) | set(b)])


def h_pow(ctx, cfg):
  P, pc = _poly(ctx, "a", cfg["sp"])
  n = cfg["n"]
  ref = {0: 1}
  for _ in range(n): ref = _rmul(ref, pc)
  R = P ** n
  _observe(ctx, R)
  ctx.prove(_same(ctx, R, ref), "pow-is-n-fold-product", "n=%d" % n)
  _exact(ctx, R, "pow")
  _nozero(ctx, R, "pow")


def _eval_ref(coefs, v):
  acc = 0
  for k, c in coefs.items():
    acc = acc + c * (v ** k)
  return acc


def h_eval(ctx, cfg):
  P, pc = _poly(ctx, "a", cfg["sp"]); Q, qc = _poly(ctx, "b", cfg["sq"])
  v = ctx.real("v")
  if any(k < 0 for k in list(cfg["sp"]) + list(cfg["sq"])):
    ctx.assume(v != 0)
  hs = cfg["horner"]
  kw = {} if hs == "default" else {"horner": hs}
  pv, qv = P(v, **kw), Q(v, **kw)
  ctx.observe("P(v)", pv)
  ctx.prove(ctx.eq(pv, _eval_ref(pc, v)), "evaluation-is-sum-of-powers", "horner=%r" % (hs,))
  ctx.prove(ctx.eq((P * Q)(v, **kw), pv * qv), "evaluation-multiplicative", "horner=%r" % (hs,))
  ctx.prove(ctx.eq((P + Q)(v, **kw), pv + qv), "evaluation-additive", "horner=%r" % (hs,))
  # independent of the evaluation scheme
  for other in (True, False, "auto"):
    if other != hs:
      ctx.prove(ctx.eq(P(v, horner=other), pv), "evaluation-scheme-independent",
                "horner=%r vs %r" % (hs, other))


def h_compose(ctx, cfg):
  from audiolazy import Poly
  P, pc = _poly(ctx, "a", cfg["sp"]); Q, qc = _poly(ctx, "b", cfg["sq"])
  v = ctx.real("v")
  if any(k < 0 for k in cfg["sq"]): ctx.assume(v != 0)
  C = P(Q)
  ctx.prove(isinstance(C, Poly), "composition-returns-poly")
  # structural reference: sum coeff * Q**power
  ref = {}
  for k, c in pc.items():
    qk = {0: 1}
    for _ in range(k): qk = _rmul(qk, qc)
    ref = _radd(ref, _rscale(qk, c))
  _observe(ctx, C)
  ctx.prove(_same(ctx, C, ref), "composition-structural")
  ctx.prove(ctx.eq(C(v), _eval_ref(pc, Q(v))), "composition-evaluates-as-p-of-q-of-v")
  _nozero(ctx, C, "compose")


def _rdiff(c):
  return {k - 1: k * v for k, v in c.items() if k != 0}


def h_calculus(ctx, cfg):
  P, pc = _poly(ctx, "a", cfg["sp"]); Q, qc = _poly(ctx, "b", cfg["sq"])
  al = ctx.real("al"); be = ctx.real("be")
  ctx.prove(_same(ctx, P.diff(), _rdiff(pc)), "diff-is-termwise")
  ctx.prove(_same(ctx, (al * P + be * Q).diff(), _radd(_rscale(_rdiff(pc), al), _rscale(_rdiff(qc), be))),
            "diff-linear")
  ctx.prove(_same(ctx, (P * Q).diff(), _radd(_rmul(_rdiff(pc), qc), _rmul(pc, _rdiff(qc)))),
            "diff-product-rule")
  ctx.prove(_same(ctx, P.diff(2), _rdiff(_rdiff(pc))), "diff-n-is-iterated")
  _nozero(ctx, P.diff(), "diff"); _exact(ctx, P.diff(), "diff"); _exact(ctx, P * Q, "mul"); _exact(ctx, P + Q, "add")
  has_m1 = (-1 in pc) and bool(pc[-1] != 0)
  try:
    I = P.integrate()
    raised = False
  except ValueError:
    raised = True
  ctx.prove(raised == has_m1, "integrate-refuses-x^-1", "raised=%s" % raised)
  if not raised:
    ctx.prove(_same(ctx, I.diff(), pc), "diff-undoes-integrate")
    _exact(ctx, I, "integrate"); _exact(ctx, I.diff(), "diff(integrate)")
    ctx.prove(_same(ctx, I, {k + 1: v / (k + 1) for k, v in pc.items() if k != -1}), "integrate-is-termwise")
    _nozero(ctx, I, "integrate")


def h_lagrange(ctx, cfg):
  from audiolazy import lagrange, Poly
  n = cfg["n"]
  xs = ctx.reals("x", n); ys = ctx.reals("y", n)
  for i in range(n):
    for j in range(i):
      ctx.assume(xs[i] != xs[j])
  pairs = list(zip(xs, ys))
  f = lagrange.func(pairs)
  L = lagrange.poly(pairs)
  ctx.prove(isinstance(L, Poly), "lagrange-poly-type", "lagrange.poly of %d point(s) is a %s" % (n, type(L).__name__))
  k = ctx.real("k")
  for i in range(n):
    ctx.prove(ctx.eq(f(xs[i]), ys[i]), "lagrange-func-through-points", "i=%d" % i)
    ctx.prove(ctx.eq(L(xs[i]), ys[i]), "lagrange-poly-through-points", "i=%d" % i)
  ctx.prove(ctx.eq(L(k), f(k)), "lagrange-poly-equals-func")
  ctx.prove(all(0 <= e <= n - 1 for e in _terms(L)), "lagrange-degree", "terms=%r" % (list(_terms(L)),))
  ctx.observe("L(k)", L(k))


DOM = [Fraction(-1), Fraction(0), Fraction(1), Fraction(2)]


def _finite(ctx, name):
  v = ctx.real(name)
  if ctx.mode == "sym":
    ctx.assume(Or(*[v == d for d in DOM]))
    # case split so that the value is concrete on this path (hash needs it)
    for d in DOM:
      if bool(v == d): return Sym.const(d)
    raise AssertionError("unreachable")
  return v


def h_eqhash(ctx, cfg):
  from audiolazy import Poly
  sp, sq = cfg["sp"], cfg["sq"]
  a = [_finite(ctx, "a%d" % i) for i in range(len(sp))]
  b = [_finite(ctx, "b%d" % i) for i in range(len(sq))]
  as_float = cfg.get("float", False)
  # the two polynomials may carry zeros that are equal but of another type / repr (0, 0.0, False, Fraction(0))
  ZK = {"int": 0, "float": 0.0, "bool": False, "fraction": Fraction(0), "default": None}
  zp, zq = ZK[cfg.get("zero_p", "int")], ZK[cfg.get("zero_q", "int")]
  kwp = {} if zp is None else {"zero": zp}
  kwq = {} if zq is None else {"zero": zq}
  if ctx.mode == "concrete":
    P = Poly(dict(zip(sp, a)), **kwp)
    Q = Poly(dict(zip(sq, [float(x) for x in b] if as_float else b)), **kwq)
  else:
    P = Poly(dict(zip(sp, a)), **kwp)
    Q = Poly(dict(zip(sq, b)), **kwq)
  pc = {k: v for k, v in zip(sp, a)}; qc = {k: v for k, v in zip(sq, b)}
  mathematically_equal = all(bool(ctx.eq(pc.get(k, 0), qc.get(k, 0))) for k in set(sp) | set(sq))
  e = bool(P == Q); ne = bool(P != Q)
  ctx.prove(e == mathematically_equal, "eq-is-coefficientwise", "P==Q gave %s" % e)
  ctx.prove(e != ne, "exactly-one-of-eq-ne", "eq=%s ne=%s" % (e, ne))
  if e:
    ctx.prove(hash(P) == hash(Q), "equal-polys-hash-equal")
  # comparison against a plain number
  for c in DOM + [0, 0.0, 1.0]:
    want = all(bool(ctx.eq(pc.get(k, 0), c if k == 0 else 0)) for k in set(sp) | {0})
    ec, nec, rec = bool(P == c), bool(P != c), bool(c == P)
    ctx.prove(ec == want, "eq-with-number", "P==%r gave %s" % (c, ec))
    ctx.prove(rec == want, "eq-with-number", "%r==P gave %s" % (c, rec))
    ctx.prove(nec != ec, "exactly-one-of-eq-ne", "P==%r is %s and P!=%r is %s" % (c, ec, c, nec))
    if ec:
      ctx.prove(hash(P) == hash(Poly(c, **kwp)), "equal-polys-hash-equal", "P == %r but hash(P) != hash(Poly(%r))" % (c, c))


def tasks(tier, seed):
  T = []
  big = tier == "thorough"
  supp2 = [(0, 1), (0, 2), (-1, 1), (1, 3), (-2, 0)]
  supp3 = [(0, 1, 2), (-1, 0, 1), (0, 1, 3), (-2, 0, 3)]
  supp1 = [(0,), (2,), (-1,)]
  # add/mul: pairs of supports
  pairs = []
  for sp in supp1 + supp2 + supp3:
    for sq in supp1 + supp2 + (supp3 if big else supp3[:2]):
      if len(sp) + len(sq) > (6 if big else 5): continue
      pairs.append((sp, sq))
  if big:
    pairs += [((0, 1, 2, 3), (0, 1)), ((-2, -1, 0, 1), (0, 2)), ((0, 1, 2, 3), (0, 1, 2))]
  for sp, sq in pairs:
    T.append(("h_addmul", {"sp": list(sp), "sq": list(sq)}))
  trip = [((0, 1), (0, 1), (0, 1)), ((0, 2), (-1, 1), (0,)), ((0, 1), (1,), (-1, 0)), ((0, 1), (0, 1), (0, 2))]
  if big: trip += [((0, 1, 2), (0, 1), (0, 1)), ((-1, 0, 1), (0, 2), (1, 3)), ((0, 1), (0, 1, 2), (-2, 0))]
  for sp, sq, sr in trip:
    T.append(("h_assoc", {"sp": list(sp), "sq": list(sq), "sr": list(sr)}))
    T.append(("h_distrib", {"sp": list(sp), "sq": list(sq), "sr": list(sr)}))
  for sp in supp1 + supp2 + supp3[: (4 if big else 2)]:
    for n in range(0, (5 if big else 4)):
      if len(sp) == 3 and n > 3: continue
      T.append(("h_pow", {"sp": list(sp), "n": n}))
  if big: T.append(("h_pow", {"sp": [0, 1, 2, 3], "n": 2}))
  for sp in ((0,), (2,), (-1,), (0, 1), (1, 3), (-1, 0, 2)):
    for n in (-1, -2, -3):
      T.append(("h_pow_negative", {"sp": list(sp), "n": n}))
  evs = [((0, 1, 2), (0, 1)), ((0, 3), (1, 2)), ((-1, 0, 1), (0, 1)), ((-2, 1), (-1,)), ((0, 1, 3), (0, 2)),
         ((2,), (0, 1)), ((1, 2), (0,))]
  if big: evs += [((0, 1, 2, 3), (0, 1)), ((-2, 0, 3), (-1, 1)), ((0, 2, 3), (0, 1, 2))]
  for sp, sq in evs:
    for h in ("default", True, False):
      T.append(("h_eval", {"sp": list(sp), "sq": list(sq), "horner": h}))
  comps = [((0, 1, 2), (0, 1)), ((0, 2), (1, 2)), ((1, 3), (0, 1)), ((0, 1), (-1, 1)), ((0, 2), (-1,)), ((2,), (0, 1))]
  if big: comps += [((0, 1, 2, 3), (0, 1)), ((0, 1, 2), (0, 1, 2)), ((0, 3), (-1, 0, 1))]
  for sp, sq in comps:
    T.append(("h_compose", {"sp": list(sp), "sq": list(sq)}))
  cals = [((0, 1, 2), (0, 1)), ((-2, 0, 3), (1,)), ((-1, 0, 1), (0, 2)), ((0, 1), (-1, 2)), ((3,), (0, 1))]
  if big: cals += [((0, 1, 2, 3), (0, 1, 2)), ((-2, -1, 0, 1), (0, 1))]
  # powers need not be integers for the calculus rules (x**.5): exact halves
  H = Fraction(1, 2)
  cals += [((H, 2), (0, 1)), ((3 * H,), (H,)), ((-H, H, 1), (1,))]
  for sp, sq in cals:
    T.append(("h_calculus", {"sp": list(sp), "sq": list(sq)}))
  for n in ((1, 2, 3, 4) if big else (1, 2, 3)):
    T.append(("h_lagrange", {"n": n}))
  eh = [((0, 1), (0, 1)), ((0, 1, 2), (0, 1)), ((0,), (0, 2)), ((-1, 0), (-1, 0)), ((0, 1), (1, 0))]
  if big: eh += [((0, 1, 2), (0, 1, 2)), ((-1, 0, 1), (0, 1))]
  for sp, sq in eh:
    T.append(("h_eqhash", {"sp": list(sp), "sq": list(sq)}))
  T.append(("h_eqhash", {"sp": [0, 1], "sq": [0, 1], "float": True}))
  for zp, zq in (("int", "float"), ("default", "int"), ("bool", "int"), ("fraction", "default"), ("float", "fraction")):
    for sp in ((0, 1), (2,), (0,)):
      T.append(("h_eqhash", {"sp": list(sp), "sq": list(sp), "zero_p": zp, "zero_q": zq}))
  return T
