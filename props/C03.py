"""C03 - a Stream behaves as a lazy sequence under any history of its methods."""
import itertools as it
from symrun.nums import And, Or, Not, same, SymElem

INF = float("inf")
NAN = float("nan")

META = {
  "functions": ["Stream.take/peek/skip/limit/append/map/filter/copy/__iter__", "StreamTeeHub.__init__/__iter__/copy/peek/"
                "take/limit/skip/append/map/filter", "thub", "lazy_itertools.tee", "lazy_misc.rint (float counts)"],
  "bounds": {"quick": "histories of <=3 operations (operation kind, target stream and count n are solver-split symbolic "
                      "integers) over a pool of <=3 live streams (one source + copies), source length 0..3 or periodic "
                      "(period 2), counts n in [-1, L+2] plus None, inf, -inf, nan and floats {0.4, 1.5, 2.5, 2.6}; "
                      "thub with n<=3 uses in every consumption order",
             "thorough": "histories of <=4 operations, source length 0..4, pool <=4"},
  "outside": "user functions in map/filter other than an uninterpreted F / an uninterpreted predicate; "
             "garbage-collection warnings of StreamTeeHub.__del__; thread safety",
  "stubs": [],
  "assumptions": ["items are opaque (uninterpreted sort): only their routing is decided",
                  "endless streams are compared on a bounded prefix"],
}
CAPS = {"quick": {"query_s": 10, "max_paths": 400000, "witness_every": 7, "task_s": 600},
        "thorough": {"query_s": 20, "max_paths": 4000000, "witness_every": 50, "task_s": 3000}}

FLOATS = [0.4, 1.5, 2.5, 2.6, -1.5]


class Model:
  """Immutable-list model of one live stream: remaining items (a long prefix when endless)."""
  def __init__(self, items, endless=False):
    self.items, self.endless = list(items), endless

  @staticmethod
  def count(n):
    """Number of items take(n)/peek(n) refers to (None handled by the caller)."""
    if isinstance(n, float):
      if n != n: return 0
      if n == INF: return None
      if n <= 0: return 0
      # rounded to nearest, halves away from zero (documented behaviour of rint)
      f = int(n)
      return f + 1 if n - f >= 0.5 else f
    return max(int(n), 0)

  def peek(self, n):
    if n is None:
      if not self.items: raise StopIteration
      return self.items[0]
    c = self.count(n)
    return list(self.items) if c is None else list(self.items[:c])

  def take(self, n):
    r = self.peek(n)
    if n is None: self.items = self.items[1:]
    else:
      c = self.count(n)
      self.items = [] if c is None else self.items[c:]
    return r

  def skip(self, n):
    self.items = self.items[max(int(round(n)), 0):]
  def limit(self, n):
    self.items = self.items[:max(int(round(n)), 0)]
    self.endless = False
  def copy(self):
    return Model(self.items, self.endless)


def _same_list(got, want):
  if len(got) != len(want): return False
  return And(*[same(a, b) for a, b in zip(got, want)]) if got else True


def _drain(ctx, s, m, tag):
  if m.endless:
    got = s.take(5); want = m.take(5)
  else:
    want = list(m.items); m.items = []
    got = s.take(len(want) + 2)          # bounded: a stream that became endless must not hang the check
  ctx.prove(_same_list(got, want), "final-contents-equal-list-model", "%s got %d items, model %d" % (tag, len(got), len(want)))
  ctx.observe("drain", len(got))


OPS = ["take", "peek", "skip", "limit", "take_none", "peek_none", "take_special", "append", "map", "filter", "copy",
       "next", "tee"]
# finite counts far beyond any stream (and beyond sys.maxsize): "fewer, without error, when fewer remain"
HUGE = [2 ** 63, 10 ** 30, 1e30]


def h_history(ctx, cfg):
  import audiolazy.lazy_stream as ls
  from symrun.stubs import patched, isinf
  with patched(ls, isinf=isinf):
    return _h_history(ctx, cfg)


def _h_history(ctx, cfg):
  from audiolazy import Stream
  from audiolazy.lazy_itertools import tee
  L = cfg["L"]; steps = cfg["steps"]; periodic = cfg.get("periodic", False)
  src = ctx.elems("e", L if not periodic else 2)
  if periodic:
    pool = [Stream(*src)]
    models = [Model(list(src) * 12, endless=True)]
  elif cfg.get("ctor") == "gen":
    pool = [Stream(e for e in src)]; models = [Model(src)]
  elif cfg.get("ctor") == "repeat":          # finite itertools.repeat: all items equal, only counts observable
    one = ctx.elem("r")
    pool = [Stream(it.repeat(one, L))]; models = [Model([one] * L)]; src = [one]
  elif cfg.get("ctor") == "chain":           # several iterables chained by the constructor
    pool = [Stream(list(src[:1]), iter(list(src[1:])))]; models = [Model(src)]
  elif cfg.get("ctor") == "scalar":          # non-iterable: endless repeat of the object
    one = ctx.elem("r")
    pool = [Stream(one)]; models = [Model([one] * 24, endless=True)]; src = [one]
  elif cfg.get("ctor") == "islice":
    pool = [Stream(it.islice(iter(list(src) + list(src)), L))]; models = [Model(src)]
  else:
    pool = [Stream(list(src))]; models = [Model(src)]
  nmax = L + 2
  F = lambda e: ctx.apply("F", (lambda v: v * 1000 + 1), e)
  allelems = list(src)
  keep = {}
  def truthy(e):
    k = str(e.t) if isinstance(e, SymElem) else e.v
    if k not in keep: keep[k] = bool(ctx.split("keep%d" % len(keep), 0, 1))
    return keep[k]
  filtered = False
  first = cfg.get("first")
  ctx.distinct(allelems)
  held, hist = {}, []
  for t in range(steps):
    kind = first if (t == 0 and first) else ctx.choice("op%d" % t, cfg.get("ops%d" % t, OPS))
    hist.append(kind)
    tg = ctx.split("tg%d" % t, 0, len(pool) - 1) if len(pool) > 1 else 0
    s, m = pool[tg], models[tg]
    if kind in ("take", "peek", "skip", "limit"):
      if cfg.get("symn"):
        # the count is a genuinely symbolic integer: the real code's own comparisons / range() / islice()
        # drive the solver's case split over its feasible values
        n = ctx.int("n%d" % t, -1, nmax)
      else:
        n = ctx.choice("n%d" % t, cfg.get("nvals%d" % t) or list(range(-1, nmax + 1)))
      if kind in ("take", "peek"):
        got = getattr(s, kind)(n); n = int(n); want = getattr(m, kind)(n)
        ctx.prove(isinstance(got, list) and _same_list(got, want), kind + "(n)-returns-first-n-remaining",
                  "step %d %s(%d): got %d items, model %d" % (t, kind, n, len(got), len(want)))
        # the returned list belongs to the caller: whatever is done to it must not show in the stream
        if isinstance(got, list): got.reverse(); got.append(None); del got[:1]
      else:
        r = getattr(s, kind)(n); n = int(n); getattr(m, kind)(n)
        ctx.prove(r is s, kind + "-returns-self")
    elif kind in ("take_none", "peek_none"):
      meth = kind.split("_")[0]
      try:
        want = getattr(m, meth)(None); wexc = False
      except StopIteration:
        wexc = True
      try:
        got = getattr(s, meth)(); gexc = False
      except StopIteration:
        gexc = True
      ctx.prove(gexc == wexc and (gexc or same(got, want)), meth + "()-next-item-or-StopIteration",
                "step %d: raised=%s expected raised=%s" % (t, gexc, wexc))
    elif kind == "take_special":
      n = ctx.choice("sp%d" % t, cfg.get("specials%d" % t) or ([INF, -INF, NAN] + FLOATS))
      meth = ctx.choice("spm%d" % t, ["take", "peek"])
      if n == INF and m.endless: ctx.exclude("take(inf) on an endless stream")
      got = getattr(s, meth)(n); want = getattr(m, meth)(n)
      ctx.prove(_same_list(got, want), "take/peek(float/inf/nan)", "step %d %s(%r): got %d items, model %d"
                % (t, meth, n, len(got), len(want)))
    elif kind == "append":
      extra = ctx.elems("x%d_" % t, 2)
      allelems.extend(extra); ctx.distinct(allelems)
      if m.endless: ctx.exclude("append to an endless stream is unobservable")
      r = s.append(list(extra)); m.items = m.items + list(extra)
      ctx.prove(r is s, "append-returns-self")
    elif kind == "map":
      r = s.map(F); m.items = [F(e) for e in m.items]
      ctx.prove(r is s, "map-returns-self")
    elif kind == "filter":
      if filtered or m.endless: ctx.exclude("one filter per history; none on endless streams")
      filtered = True
      r = s.filter(truthy)
      m.items = [e for e in m.items if truthy(e)]
      ctx.prove(r is s, "filter-returns-self")
    elif kind == "copy":
      if len(pool) >= cfg["pool"]: ctx.exclude("pool bound")
      c = s.copy()
      ctx.prove(type(c) is Stream and c is not s, "copy-is-a-new-stream")
      pool.append(c); models.append(m.copy())
    elif kind == "next":
      try:
        want = m.take(None); wexc = False
      except StopIteration:
        wexc = True
      try:
        got = next(iter(s)); gexc = False
      except StopIteration:
        gexc = True
      ctx.prove(gexc == wexc and (gexc or same(got, want)), "iteration-yields-next-item")
    elif kind == "held_next":
      # plain iteration with ONE iterator kept across the other operations (a `for` loop around them)
      if tg not in held: held[tg] = iter(s)
      try:
        want = m.take(None); wexc = False
      except StopIteration:
        wexc = True
      try:
        got = next(held[tg]); gexc = False
      except StopIteration:
        gexc = True
      ctx.prove(gexc == wexc and (gexc or same(got, want)), "held-iterator-yields-the-next-item",
                "step %d: after %s" % (t, ",".join(hist) or "nothing"))
    elif kind == "huge":
      n = ctx.choice("hv%d" % t, HUGE); meth = ctx.choice("hm%d" % t, ["take", "peek", "limit", "skip"])
      if m.endless and meth in ("take", "peek"): ctx.exclude("all of an endless stream")
      if meth in ("take", "peek"):
        got = getattr(s, meth)(n); want = list(m.items)
        if meth == "take": m.items = []
        ctx.prove(_same_list(got, want), "count-beyond-the-end-returns-what-remains", "step %d %s(%r)" % (t, meth, n))
      elif meth == "limit":
        s.limit(n)                     # no-op on the contents
      else:
        if m.endless: ctx.exclude("skipping 1e30 items of an endless stream")
        s.skip(n); m.items = []
    elif kind == "tee":
      if len(pool) + 1 > cfg["pool"]: ctx.exclude("pool bound")
      a, b = tee(s, 2)
      pool[tg] = a; pool.append(b); models.append(m.copy())
    else:
      raise ValueError(kind)
  # every live stream now yields exactly what the model holds, whatever the draining order
  order = list(range(len(pool)))
  if cfg.get("reverse_drain"): order.reverse()
  for i in order:
    _drain(ctx, pool[i], models[i], "stream %d" % i)


def h_thub(ctx, cfg):
  """n uses of a thub are independent and complete; use n+1 raises IndexError; peek/copy consume no use."""
  from audiolazy import Stream, thub, StreamTeeHub
  L = cfg["L"]
  src = ctx.elems("e", L)
  n = ctx.split("n", 0, cfg["n"])
  th = thub(list(src) if cfg["src"] == "list" else Stream(list(src)), n)
  ctx.prove(isinstance(th, StreamTeeHub), "thub-of-iterable-is-hub")
  uses = []
  kinds = cfg.get("kinds") or ["iter", "stream", "limit", "skip", "map", "append", "filter_all"]
  if cfg.get("as_argument"): kinds = ["iter", "appended-to", "appended-to-with-more", "chained"]
  F = lambda e: ctx.apply("F", (lambda v: v * 3 + 1), e)
  # peeking / copying first must not consume a use
  if cfg.get("peek_first") and n >= 1:
    k = ctx.split("pk", -1, L + 1)
    got = th.peek(k)
    ctx.prove(_same_list(got, list(src[:max(k, 0)])), "thub-peek-sees-prefix")
    c = th.copy()
    ctx.prove(_same_list(list(c), list(src)), "thub-copy-sees-everything")
  wants = []
  for u in range(int(n)):
    kind = ctx.choice("k%d" % u, kinds)
    if kind == "iter": uses.append(iter(th)); wants.append(list(src))
    elif kind == "stream": uses.append(iter(Stream(th))); wants.append(list(src))
    elif kind == "limit":
      k = ctx.split("lim%d" % u, 0, L + 1); uses.append(iter(th.limit(k))); wants.append(list(src[:k]))
    elif kind == "skip":
      k = ctx.split("sk%d" % u, 0, L + 1); uses.append(iter(th.skip(k))); wants.append(list(src[k:]))
    elif kind == "map": uses.append(iter(th.map(F))); wants.append([F(e) for e in src])
    elif kind == "append":
      x = ctx.elem("x%d" % u); uses.append(iter(th.append([x]))); wants.append(list(src) + [x])
    elif kind == "appended-to":        # the hub handed to another Stream's append: one use, served in full
      y = ctx.elem("y%d" % u); uses.append(iter(Stream([y]).append(th))); wants.append([y] + list(src))
    elif kind == "appended-to-with-more":
      y = ctx.elem("y%d" % u); uses.append(iter(Stream([y]).append(th, [y]))); wants.append([y] + list(src) + [y])
    elif kind == "chained":
      from audiolazy.lazy_itertools import chain as _chain
      y = ctx.elem("y%d" % u); uses.append(iter(_chain([y], th))); wants.append([y] + list(src))
    else: uses.append(iter(th.filter(lambda e: True))); wants.append(list(src))
  def ask_one_more():
    # use n+1 must raise IndexError (whatever the way of asking)
    ask = ctx.choice("ask", ["iter", "stream", "peek", "copy", "limit", "map"])
    try:
      {"iter": lambda: iter(th), "stream": lambda: Stream(th), "peek": lambda: th.peek(1), "copy": lambda: th.copy(),
       "limit": lambda: th.limit(1), "map": lambda: th.map(F)}[ask]()
      raised = False
    except IndexError:
      raised = True
    ctx.prove(raised, "thub-use-n+1-raises-IndexError", "ask=%s n=%d" % (ask, n))
  # a hub placed inside a lazy chain (append with several arguments, itertools.chain) is only asked for its use when
  # the chain reaches it: there the extra use is requested after the n uses have been consumed
  late = bool(cfg.get("as_argument"))
  if not late: ask_one_more()
  # consume the uses in an order chosen by case split: every interleaving (short sources) or a permutation
  got = [[] for _ in uses]
  live = list(range(len(uses)))
  step = 0
  if not cfg.get("interleave", True) and len(uses) > 1:
    perm = ctx.choice("perm", list(it.permutations(range(len(uses)))))
    for j in perm: got[j] = list(uses[j])
    live = []
  while live and step < 40:
    j = live[ctx.split("pick%d" % step, 0, len(live) - 1)] if len(live) > 1 else live[0]
    step += 1
    try:
      got[j].append(next(uses[j]))
    except StopIteration:
      live.remove(j)
  for j in range(len(uses)):
    ctx.prove(_same_list(got[j], wants[j]), "thub-uses-independent-and-complete", "use %d" % j)
    ctx.observe("use", len(got[j]))
  if late: ask_one_more()


def h_thub_noniter(ctx, cfg):
  from audiolazy import thub
  x = ctx.real("x"); n = ctx.split("n", 0, 3)
  ctx.prove(thub(x, n) is x, "thub-of-non-iterable-is-the-object")
  o = object()
  ctx.prove(thub(o, n) is o and thub(None, n) is None and thub(7, n) == 7, "thub-of-non-iterable-is-the-object")


def h_copies_interleaved(ctx, cfg):
  """Copies / tee outputs consumed in any interleaving each see the whole remaining sequence."""
  from audiolazy import Stream
  from audiolazy.lazy_itertools import tee
  L = cfg["L"]
  src = ctx.elems("e", L)
  s = Stream(iter(list(src)))
  pre = ctx.split("pre", 0, L)
  head = s.take(pre)
  ctx.prove(_same_list(head, list(src[:pre])), "take-before-copy")
  if cfg["how"] == "copy":
    parts = [s, s.copy()]; parts.append(parts[1].copy())
  else:
    parts = list(tee(s, 3))
  its = [iter(p) for p in parts]
  got = [[] for _ in its]
  live = list(range(3)); step = 0
  while live and step < 40:
    j = live[ctx.split("pick%d" % step, 0, len(live) - 1)] if len(live) > 1 else live[0]
    step += 1
    try: got[j].append(next(its[j]))
    except StopIteration: live.remove(j)
  for j in range(3):
    ctx.prove(_same_list(got[j], list(src[pre:])), "copies-mutually-independent", "copy %d" % j)


class UserIter:
  def __init__(self, items): self.items, self.i = list(items), 0
  def __iter__(self): return self
  def __next__(self):
    if self.i >= len(self.items): raise StopIteration
    self.i += 1
    return self.items[self.i - 1]


def h_tee_kinds(ctx, cfg):
  """lazy_itertools.tee(data, n): n independent Streams for a Stream or ANY iterator, n times the same object otherwise."""
  from audiolazy import Stream
  from audiolazy.lazy_itertools import tee
  L = cfg["L"]
  src = ctx.elems("e", L)
  n = ctx.split("n", 1, 3)
  kind = cfg["kind"]
  data = {"stream": lambda: Stream(list(src)), "gen": lambda: (e for e in src), "listiter": lambda: iter(list(src)),
          "chain": lambda: it.chain(list(src[:1]), list(src[1:])), "islice": lambda: it.islice(list(src), L),
          "useriter": lambda: UserIter(src), "map": lambda: map(lambda v: v, list(src)), "zipiter": lambda: iter(tuple(src)),
          "list": lambda: list(src), "tuple": lambda: tuple(src), "number": lambda: 7, "none": lambda: None}[kind]()
  res = tee(data, n) if cfg.get("pos", True) else tee(data, n=n)
  ctx.prove(isinstance(res, tuple) and len(res) == n, "tee-returns-n-items")
  if kind in ("list", "tuple", "number", "none"):
    ctx.prove(all(r is data for r in res), "tee-of-a-non-iterator-is-the-object-n-times")
    return
  ctx.prove(all(type(r) is Stream for r in res) and len(set(id(r) for r in res)) == n, "tee-of-an-iterator-gives-n-distinct-streams",
            "types %r" % [type(r).__name__ for r in res])
  its = [iter(r) for r in res]
  got = [[] for _ in its]
  live = list(range(len(its))); step = 0
  while live and step < 30:
    j = live[ctx.split("pick%d" % step, 0, len(live) - 1)] if len(live) > 1 else live[0]
    step += 1
    try: got[j].append(next(its[j]))
    except StopIteration: live.remove(j)
  for j in range(len(its)):
    ctx.prove(_same_list(got[j], list(src)), "tee-outputs-independent-and-complete", "output %d of %s" % (j, kind))


def tasks(tier, seed):
  big = tier == "thorough"
  T = []
  Ls = (0, 1, 2, 3, 4) if big else (0, 2, 3)
  OBS = ["take", "peek", "take_none", "next", "copy", "skip", "limit", "append"]
  for L in Ls:
    small = [0, 1, L + 1]
    for first in OPS:
      # all 2-step histories with the full count range (the final drain observes every live stream)
      T.append(("h_history", {"L": L, "steps": 2, "pool": 3, "first": first, "symn": True}))
      # 3-step histories: third step restricted to the state-changing / observing kinds and 3 counts
      T.append(("h_history", {"L": L, "steps": 3, "pool": 3, "first": first, "nvals1": small + [-1], "nvals2": small,
                              "ops2": OBS, "specials1": [2.5, INF], "specials2": [NAN]}))
      if big:
        T.append(("h_history", {"L": L, "steps": 3, "pool": 4, "first": first}))
        T.append(("h_history", {"L": L, "steps": 4, "pool": 4, "first": first, "nvals0": small, "nvals1": small,
                                "nvals2": small, "nvals3": [1, L + 1], "ops2": OBS, "ops3": OBS[:5],
                                "specials1": [2.5], "specials2": [INF], "specials3": [NAN]}))
  for first in OPS:
    for ctor in ("repeat", "chain", "scalar", "islice"):
      T.append(("h_history", {"L": 3, "steps": 2, "pool": 3, "first": first, "ctor": ctor,
                              "nvals1": [-1, 0, 1, 2, 4], "specials1": [2.5, INF, NAN]}))
    T.append(("h_history", {"L": 2, "steps": 2, "pool": 3, "first": first, "periodic": True}))
    T.append(("h_history", {"L": 3, "steps": 2, "pool": 3, "first": first, "ctor": "gen", "reverse_drain": True}))
  # one iterator held across other operations (what a `for` loop does), and counts beyond sys.maxsize
  for mid in ("peek", "copy", "take", "skip", "limit", "append", "map", "tee", "peek_none", "take_special"):
    T.append(("h_history", {"L": 3, "steps": 3, "pool": 2, "first": "held_next", "ops1": [mid], "ops2": ["held_next"],
                            "nvals1": [0, 1, 2]}))
  for first in ("huge", "take", "copy", "skip"):
    T.append(("h_history", {"L": 2, "steps": 2, "pool": 2, "first": first, "ops1": ["huge"], "nvals0": [0, 1, 3]}))
  for L in ((1, 2) if not big else (0, 1, 2)):
    for src in ("list", "stream"):
      T.append(("h_thub", {"L": L, "n": 3 if big else 2, "src": src}))
      if L == 1 or big: T.append(("h_thub", {"L": L, "n": 2, "src": src, "peek_first": True}))
  for L in ((3,) if not big else (3, 4)):
    for src in ("list", "stream"):
      T.append(("h_thub", {"L": L, "n": 3, "src": src, "interleave": False,
                           "kinds": None if big else ["iter", "stream", "limit", "map"]}))
  for src in ("list", "stream"):
    T.append(("h_thub", {"L": 2, "n": 3 if big else 2, "src": src, "as_argument": True}))
    T.append(("h_thub", {"L": 3, "n": 3, "src": src, "as_argument": True, "interleave": False}))
  T.append(("h_thub_noniter", {}))
  for kind in ("stream", "gen", "listiter", "chain", "islice", "useriter", "map", "zipiter", "list", "tuple", "number", "none"):
    T.append(("h_tee_kinds", {"kind": kind, "L": 2 if not big else 3}))
  T.append(("h_tee_kinds", {"kind": "listiter", "L": 2, "pos": False}))
  for how in ("copy", "tee"):
    for L in ((1, 2) if not big else (2, 3, 4)):
      T.append(("h_copies_interleaved", {"L": L, "how": how}))
  return T
