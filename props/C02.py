"""C02 - everything is lazy: no read before demand, bounded read per output."""
import itertools as it
import math
import operator

from symrun.nums import And, Or, Not, same, SymElem, Sym, ExactInt

META = {
  "functions": ["Stream.__init__/operators/map/filter/skip/limit/append/copy/peek/blocks", "tostream", "lazy_itertools wrappers "
                "(imap, izip, chain, islice, takewhile, accumulate.*, tee, count, repeat)", "LinearFilter.__call__ / ZFilter.__call__",
                "CascadeFilter.__call__", "ParallelFilter.__call__", "lazy_misc.blocks/zero_pad", "maverage.deque/recursive/fir",
                "envelope.rms/abs/squared", "clip", "zcross", "unwrap", "amdf", "Streamix", "resample", "overlap_add.list",
                "stft.base wrapper", "thub/StreamTeeHub"],
  "bounds": {"quick": "number of outputs requested k in 0..5 (case-split symbolic integer), size 1..3, hop 1..3 (hop<=size for "
                      "overlap-add/STFT, hop up to size+2 for blocks), data values symbolic (reals for data-dependent stages: "
                      "zcross, filter, takewhile, clip, unwrap; uninterpreted items for routing stages); endless counting source; "
                      "chains of two stages for a fixed grid of pairs",
             "thorough": "k in 0..8, size 1..5, hop 1..5, all pairs of sample-wise stages chained"},
  "outside": "numpy-backed strategies (overlap_add.numpy, numpy transforms), audio I/O, stages whose need is not bounded by a "
             "documented formula (Stream.filter / takewhile are checked for 'no read beyond the k-th accepted item')",
  "stubs": ["lazy_stream.isinf: False on proxies"],
  "assumptions": ["the source is an endless counting iterator producing fresh symbolic values on demand",
                  "look-ahead constants: resample reads rint((order+1)/2) items for its first output (documented neighbourhood), "
                  "Streamix starts an event at its rounded cumulative time"],
}
CAPS = {"quick": {"query_s": 10, "max_paths": 100000, "witness_every": 2, "path_s": 30},
        "thorough": {"query_s": 20, "max_paths": 1000000, "witness_every": 5, "path_s": 60}}


class Source:
  """Endless counting source of fresh symbolic values."""
  def __init__(self, ctx, kind, tag="x"):
    self.ctx, self.kind, self.tag, self.count, self.vals = ctx, kind, tag, 0, []
  def __iter__(self): return self
  def __next__(self):
    i = self.count
    self.count += 1
    if self.count > 400: raise AssertionError("stage reads without bound")
    if self.kind == "elem": v = self.ctx.elem("%s%d" % (self.tag, i))
    elif self.kind == "real": v = self.ctx.real("%s%d" % (self.tag, i))
    elif self.kind == "nonzero": v = self.ctx.real("%s%d" % (self.tag, i), nonzero=True)
    else: v = [0.5, -0.25, 0.75, 0.0, -1.0, 0.125][i % 6]
    self.vals.append(v)
    return v


class Reiterable:
  """An iterable that is neither a Stream nor an iterator: every iter() starts a new generator over the same live source
  (a sensor, an open file).  A stage must iterate its input once."""
  def __init__(self, src): self.src = src
  def __iter__(self):
    for v in self.src: yield v


def _registry():
  """name -> (builder(src, P), need(k, P), exact, data kind, needs)"""
  import audiolazy as al
  from audiolazy import Stream, z, CascadeFilter, ParallelFilter, thub
  from audiolazy import lazy_itertools as lit
  from audiolazy.lazy_misc import blocks, zero_pad
  R = {}
  add = lambda name, build, need, exact=True, data="elem", params=(): R.__setitem__(name, (build, need, exact, data, params))
  k_ = lambda k, P: k
  # Stream constructor / operators / methods
  add("Stream(src)", lambda s, P: Stream(s), k_)
  add("Stream+scalar", lambda s, P: Stream(s) + 1, k_)
  add("scalar-Stream", lambda s, P: 1 - Stream(s), k_)
  add("Stream*list", lambda s, P: Stream(s) * ([1] * 50), k_)
  add("list+Stream", lambda s, P: ([1] * 50) + Stream(s), k_)
  add("-Stream", lambda s, P: -Stream(s), k_)
  add("abs(Stream)", lambda s, P: abs(Stream(s)), k_)
  add("Stream<Stream(periodic)", lambda s, P: Stream(s) < Stream(0, 1), k_)
  add("Stream.map", lambda s, P: Stream(s).map(lambda v: v), k_)
  add("Stream.attr", lambda s, P: Stream(s).real, k_, data="float")
  add("Stream.copy", lambda s, P: Stream(s).copy(), k_)
  add("Stream.copy-other", lambda s, P: (lambda st: (st.copy(), st)[1])(Stream(s)), k_)
  add("Stream.skip(n)", lambda s, P: Stream(s).skip(P["size"]), lambda k, P: k + P["size"] if k else 0, params=("size",))
  add("Stream.limit(n)", lambda s, P: Stream(s).limit(P["size"] + 9), k_, params=("size",))
  add("Stream.append", lambda s, P: Stream(s).append([1, 2]), k_)
  add("append(Stream)", lambda s, P: Stream([7] * 2).append(s), lambda k, P: max(k - 2, 0))
  add("Stream.blocks", lambda s, P: Stream(s).blocks(size=P["size"], hop=P["hop"]),
      lambda k, P: (k - 1) * P["hop"] + P["size"] if k else 0, params=("size", "hop"))
  add("blocks", lambda s, P: blocks(s, size=P["size"], hop=P["hop"]),
      lambda k, P: (k - 1) * P["hop"] + P["size"] if k else 0, params=("size", "hop"))
  add("zero_pad(left)", lambda s, P: zero_pad(s, left=P["size"], right=3), lambda k, P: max(k - P["size"], 0), params=("size",))
  add("thub(src,2)->Stream", lambda s, P: Stream(thub(s, 1)), k_)
  add("thub-sum", lambda s, P: (lambda h: h + h)(thub(s, 2)), k_)
  # itertools wrappers
  add("imap", lambda s, P: lit.imap(lambda v: v, s), k_)
  add("izip", lambda s, P: lit.izip(s, it.count()), k_)
  add("izip.longest", lambda s, P: lit.izip.longest(s, [1]), k_)
  add("chain", lambda s, P: lit.chain([9], s), lambda k, P: max(k - 1, 0))
  add("chain.star", lambda s, P: lit.chain.from_iterable([[9, 9], s]), lambda k, P: max(k - 2, 0))
  add("islice", lambda s, P: lit.islice(s, P["size"], None), lambda k, P: k + P["size"] if k else 0, params=("size",))
  add("accumulate", lambda s, P: lit.accumulate(s), k_, data="real")
  add("accumulate.func", lambda s, P: lit.accumulate.func(s), k_, data="real")
  add("accumulate.z", lambda s, P: lit.accumulate.z(s, zero=0), k_, data="real")
  add("tee[0]", lambda s, P: lit.tee(Stream(s), 2)[0], k_)
  add("starmap", lambda s, P: lit.starmap(lambda a, b: a, lit.izip(s, it.count())), k_)
  add("enumerate-like", lambda s, P: lit.izip(lit.count(), s), k_)
  # filters
  add("FIR", lambda s, P: (1 + 2 * z ** -1 - z ** -P["size"])(s, zero=0), k_, data="real", params=("size",))
  add("IIR", lambda s, P: ((1 + z ** -1) / (1 - 0.5 * z ** -1))(s, zero=0), k_, data="real")
  add("delay", lambda s, P: (z ** -P["size"])(s, zero=0), k_, data="real", params=("size",))
  add("time-varying", lambda s, P: (1 + Stream(1, 2) * z ** -1)(s, zero=0), k_, data="real")
  add("Cascade", lambda s, P: CascadeFilter(1 + z ** -1, 1 / (1 - 0.5 * z ** -1))(s, zero=0), k_, data="real")
  add("Parallel", lambda s, P: ParallelFilter(1 + z ** -1, z ** -2, 1 / (1 - 0.5 * z ** -1))(s, zero=0), k_, data="real")
  add("Parallel-empty", lambda s, P: ParallelFilter()(s, zero=0), k_, data="real")
  add("Parallel(re-iterable)", lambda s, P: ParallelFilter(1 + z ** -1, z ** -2, 1 / (1 - 0.5 * z ** -1))(Reiterable(s), zero=0), k_, data="real")
  add("Cascade(re-iterable)", lambda s, P: CascadeFilter(1 + z ** -1, 1 / (1 - 0.5 * z ** -1))(Reiterable(s), zero=0), k_, data="real")
  add("IIR(re-iterable)", lambda s, P: ((1 + z ** -1) / (1 - 0.5 * z ** -1))(Reiterable(s), zero=0), k_, data="real")
  add("Stream(re-iterable)+Stream", lambda s, P: (lambda st: st + 1)(Stream(Reiterable(s))), k_)
  # analysis tools
  add("maverage.deque", lambda s, P: al.maverage.deque(P["size"])(s, zero=0), k_, data="real", params=("size",))
  add("maverage.recursive", lambda s, P: al.maverage.recursive(P["size"])(s, zero=0), k_, data="real", params=("size",))
  add("maverage.fir", lambda s, P: al.maverage.fir(P["size"])(s, zero=0), k_, data="real", params=("size",))
  add("envelope.abs", lambda s, P: al.envelope.abs(s, cutoff=0.5), k_, data="float")
  add("envelope.squared", lambda s, P: al.envelope.squared(s, cutoff=0.5), k_, data="float")
  add("envelope.rms", lambda s, P: al.envelope.rms(s, cutoff=0.5), k_, data="float")
  add("clip", lambda s, P: al.clip(s, -1, 1), k_, data="real")
  add("clip-low-only", lambda s, P: al.clip(s, 0, None), k_, data="real")
  add("zcross", lambda s, P: al.zcross(s), k_, data="real")
  add("zcross-hyst", lambda s, P: al.zcross(s, hysteresis=0.5), k_, data="real")
  add("zcross-first-sign", lambda s, P: al.zcross(s, hysteresis=0.25, first_sign=-1), k_, data="real")
  add("unwrap", lambda s, P: al.unwrap(s, max_delta=1, step=2), k_, data="real")
  add("amdf", lambda s, P: al.amdf(P["hop"], size=P["size"])(s, zero=0), k_, data="real", params=("size", "hop"))
  # mixer
  def smix(s, P):
    m = al.Streamix(zero=0)
    m.add(P["size"], s)
    m.add(0, [1] * 40)
    return m
  add("Streamix", smix, lambda k, P: max(k - P["size"], 0), data="real", params=("size",))
  def smix_keep(s, P):
    m = al.Streamix(keep=True, zero=0); m.add(1.5, s); return m
  add("Streamix-fractional", smix_keep, lambda k, P: max(k - 1, 0), data="real")   # 1.5 -> sample 1 or 2: at most k-1
  # resampler: first output needs rint((order+1)/2) items, then one more per unit of position advanced
  def rs_need(order, num, den):
    def need(k, P):
      if k == 0: return 0
      thr = (order + 1) / 2.0
      first = int(thr + .5)
      # position advanced after k-1 steps of size num/den, one new item each time idx exceeds the threshold
      import fractions
      idx = fractions.Fraction(int(thr)); reads = first
      for _ in range(k - 1):
        idx += fractions.Fraction(num, den)
        while idx > fractions.Fraction(order + 1, 2):
          reads += 1; idx -= 1
      return reads
    return need
  add("resample-1:1", lambda s, P: al.resample(s, old=1, new=1, order=3, zero=0), rs_need(3, 1, 1), data="real")
  add("resample-up2", lambda s, P: al.resample(s, old=1, new=2, order=1, zero=0), rs_need(1, 1, 2), data="real")
  add("resample-down", lambda s, P: al.resample(s, old=3, new=2, order=2, zero=0), rs_need(2, 3, 2), data="real")
  add("resample-stream-step", lambda s, P: al.resample(s, old=Stream(1), new=1, order=3, zero=0), rs_need(3, 1, 1), data="real")
  add("resample-stream-step-half", lambda s, P: al.resample(s, old=1, new=Stream(2), order=1, zero=0), rs_need(1, 1, 2), data="real")
  # overlap-add over a lazily produced block stream, and the STFT wrapper
  def ola(s, P):
    blks = (list(b) for b in blocks(s, size=P["size"], hop=P["hop"]))
    return al.overlap_add.list(blks, size=P["size"], hop=P["hop"], normalize=False)
  def ola_need(k, P):
    if k == 0: return 0
    j = (k - 1) // P["hop"] + 1                 # blocks needed for output sample k-1
    return (j - 1) * P["hop"] + P["size"]
  add("overlap_add.list", ola, ola_need, data="real", params=("size", "hop<=size"))
  def ola_detect(s, P):
    blks = (list(b) for b in blocks(s, size=P["size"], hop=P["hop"]))
    return al.overlap_add.list(blks, hop=P["hop"], wnd=[1] * P["size"])
  add("overlap_add.list(size detected)", ola_detect, ola_need, data="real", params=("size", "hop<=size"))
  def stft_id(s, P):
    f = al.stft.base(lambda blk: blk, size=P["size"], hop=P["hop"], transform=None, inverse_transform=None,
                     before=None, after=None, ola=al.overlap_add.list, ola_normalize=False)
    return f(s)
  add("stft-wrapper", stft_id, ola_need, data="real", params=("size", "hop<=size"))
  def stft_noola(s, P):
    f = al.stft.base(lambda blk: list(blk), size=P["size"], hop=P["hop"], transform=None, inverse_transform=None,
                     before=None, after=None, ola=None, wnd=[1] * P["size"])
    return f(s)
  add("stft-wrapper(ola=None)", stft_noola, lambda k, P: (k - 1) * P["hop"] + P["size"] if k else 0, data="real",
      params=("size", "hop<=size"))
  return R


def _params(ctx, params, cfg):
  P = {}
  if "size" in params: P["size"] = ctx.split("size", 1, cfg["S"])
  if "hop" in params: P["hop"] = ctx.split("hop", 1, cfg["S"] + 2)
  if "hop<=size" in params:
    P["hop"] = ctx.split("hop", 1, cfg["S"])
    if P["hop"] > P["size"]: ctx.exclude("hop > size")
  return P


def _patched():
  import audiolazy.lazy_stream as ls
  from symrun.stubs import patched, isinf
  return patched(ls, isinf=isinf)


def h_stage(ctx, cfg):
  with _patched():
    R = _registry()
    build, need, exact, data, params = R[cfg["stage"]]
    P = _params(ctx, params, cfg)
    src = Source(ctx, data)
    stage = build(src, P)
    ctx.prove(src.count == 0, "no-read-at-construction", "%s read %d items while being built" % (cfg["stage"], src.count))
    itr = iter(stage)
    ctx.prove(src.count == 0, "no-read-before-first-next", "%s read %d items at iter()" % (cfg["stage"], src.count))
    k = ctx.split("k", 0, cfg["K"])
    for i in range(1, k + 1):
      try:
        next(itr)
      except StopIteration:
        ctx.prove(False, "works-on-endless-source", "%s stopped after %d outputs on an endless source" % (cfg["stage"], i - 1))
      n = need(i, P)
      ctx.observe("reads", src.count)
      ctx.prove(src.count <= n, "reads-no-more-than-needed",
                "%s %r: %d items read after %d outputs, needs %d" % (cfg["stage"], dict(P), src.count, i, n))
      if exact:
        ctx.prove(src.count == n, "reads-exactly-what-it-needs",
                  "%s %r: %d items read after %d outputs, needs %d" % (cfg["stage"], dict(P), src.count, i, n))


def h_data_dependent(ctx, cfg):
  """Stream.filter / takewhile / ifilter: after the k-th output nothing beyond the k-th accepted item was read."""
  from audiolazy import Stream
  from audiolazy import lazy_itertools as lit
  with _patched():
    src = Source(ctx, "real")
    thr = ctx.real("thr")
    pred = lambda v: v > thr
    st = {"Stream.filter": lambda: Stream(src).filter(pred), "ifilter": lambda: lit.ifilter(pred, src),
          "takewhile": lambda: lit.takewhile(pred, src), "dropwhile": lambda: lit.dropwhile(pred, src),
          "ifilterfalse": lambda: lit.ifilterfalse(pred, src)}[cfg["stage"]]()
    ctx.prove(src.count == 0, "no-read-at-construction")
    itr = iter(st)
    k = ctx.split("k", 0, cfg["K"])
    outs = []
    for i in range(k):
      if src.count >= cfg["K"] + 3: ctx.exclude("bounded source prefix")
      try:
        v = next(_bounded(itr, src, cfg["K"] + 3, ctx))
      except StopIteration:
        return
      outs.append(v)
      # the last item read is exactly the one just returned
      ctx.prove(v is src.vals[-1], "no-read-beyond-the-returned-item", "%s read %d items for %d outputs" % (cfg["stage"], src.count, i + 1))


def _bounded(itr, src, cap, ctx):
  class B:
    def __iter__(s): return s
    def __next__(s):
      return next(itr)
  # make the source finite at `cap` so that a rejecting prefix cannot loop forever
  orig = src.__class__.__next__
  def nxt(self):
    if self.count >= cap: ctx.exclude("prefix bound")
    return orig(self)
  src.__class__ = type("BoundedSource", (src.__class__,), {"__next__": nxt}) if src.__class__.__name__ == "Source" else src.__class__
  return B()


def h_chain(ctx, cfg):
  """Two stages chained: need composes."""
  with _patched():
    R = _registry()
    b1, n1, e1, d1, p1 = R[cfg["first"]]
    b2, n2, e2, d2, p2 = R[cfg["second"]]
    P = _params(ctx, tuple(set(p1) | set(p2)), cfg)
    data = "real" if "real" in (d1, d2) else ("float" if "float" in (d1, d2) else "elem")
    src = Source(ctx, data)
    stage = b2(b1(src, P), P)
    ctx.prove(src.count == 0, "no-read-at-construction", "%s|%s" % (cfg["first"], cfg["second"]))
    itr = iter(stage)
    k = ctx.split("k", 0, cfg["K"])
    for i in range(1, k + 1):
      next(itr)
      n = n1(n2(i, P), P)
      ctx.prove(src.count <= n, "chain-reads-no-more-than-needed",
                "%s|%s %r: %d read after %d outputs, needs %d" % (cfg["first"], cfg["second"], dict(P), src.count, i, n))


def h_exhaust(ctx, cfg):
  """A stage that ends by itself after n items must not read item n+1 when it is exhausted."""
  from audiolazy import Stream
  from audiolazy import lazy_itertools as lit
  with _patched():
    src = Source(ctx, "elem")
    n = ctx.split("n", 0, cfg["K"])
    st = {"Stream.limit": lambda: Stream(src).limit(n), "islice": lambda: lit.islice(src, n),
          "Stream.take": lambda: iter(Stream(src).take(n)), "limit.copy": lambda: Stream(src).limit(n).copy(),
          "limit+1": lambda: Stream(src).limit(n) + 1, "peek-then-limit": lambda: (lambda s_: (s_.peek(n), s_.limit(n))[1])(Stream(src)),
          "zip-with-finite": lambda: Stream(src) * list(range(100, 100 + n))}[cfg["stage"]]()
    got = list(st)
    ctx.prove(len(got) == n, "finite-stage-length", "%s: %d items for n=%d" % (cfg["stage"], len(got), n))
    extra = 1 if cfg["stage"] == "zip-with-finite" else 0          # map/zip must pull the endless side once to learn the other ended
    ctx.prove(src.count <= n + extra, "exhausting-a-finite-stage-reads-nothing-beyond-its-end",
              "%s: %d source items read for %d outputs" % (cfg["stage"], src.count, n))


def h_secondary(ctx, cfg):
  """Stages with a second lazy input besides the signal (the filter `memory` iterable, the Karplus-Strong memory, the
  lag data of a mixer event): building the stage reads nothing from the signal and only the documented, bounded
  number of items from the second input - which may be endless."""
  import audiolazy as al
  from audiolazy import Stream, z
  with _patched():
    src = Source(ctx, "real"); mem = Source(ctx, "nonzero" if cfg["stage"] == "gain-stream" else "real", tag="m")
    wrap = {"iterator": lambda m: m, "stream": lambda m: Stream(m), "generator": lambda m: (v for v in m)}[cfg["mem"]]
    lm = cfg["lm"]
    if cfg["stage"] == "filter":
      den = 1 - sum(0.5 ** j * z ** -j for j in range(1, lm + 1))
      stage = ((1 + z ** -1) / den)(src, memory=wrap(mem), zero=0)
    elif cfg["stage"] == "cascade":
      stage = al.CascadeFilter(1 / (1 - 0.5 * z ** -lm))(src, memory=wrap(mem), zero=0)
    elif cfg["stage"] == "karplus":
      stage = al.karplus_strong(2 * 3.141592653589793 / lm, memory=wrap(mem))
    elif cfg["stage"] in ("gain-stream", "tap-stream"):
      # a coefficient Stream is a second lazy input too: nothing of it is read while the stage is built, then one
      # value per output
      coef = Stream(mem)
      filt = (1 / (coef - 0.5 * z ** -1)) if cfg["stage"] == "gain-stream" else (1 + coef * z ** -lm)
      stage = filt(src, zero=0)
      ctx.prove(src.count == 0 and mem.count == 0, "no-read-at-construction",
                "signal read %d, coefficient stream read %d while the stage was built" % (src.count, mem.count))
      itr = iter(stage)
      k = ctx.split("k", 0, cfg["K"])
      for i in range(1, k + 1):
        next(itr)
        ctx.prove(src.count == i and mem.count == i, "reads-exactly-what-it-needs",
                  "after %d outputs: %d signal items, %d coefficient values" % (i, src.count, mem.count))
      return
    else: raise ValueError(cfg["stage"])
    ctx.prove(src.count == 0, "no-read-at-construction", "signal read %d items while the stage was built" % src.count)
    ctx.prove(mem.count <= lm + 1, "secondary-input-read-is-bounded-at-construction",
              "%d items of the memory iterable read for a memory of %d" % (mem.count, lm))
    m0 = mem.count
    itr = iter(stage)
    k = ctx.split("k", 0, cfg["K"])
    for i in range(1, k + 1):
      next(itr)
      if cfg["stage"] != "karplus":
        ctx.prove(src.count == i, "reads-exactly-what-it-needs", "%d signal items after %d outputs" % (src.count, i))
      ctx.prove(mem.count <= max(m0, lm + 1), "secondary-input-not-read-further", "%d memory items after %d outputs" % (mem.count, i))


def h_peek_take(ctx, cfg):
  """take(n)/peek(n) read exactly n; a finite `take` never touches item n+1."""
  from audiolazy import Stream
  with _patched():
    src = Source(ctx, "elem")
    s = Stream(src)
    n = ctx.int("n", 0, cfg["K"])
    m = cfg["meth"]
    got = getattr(s, m)(n)
    ctx.prove(len(got) == int(n) and src.count == int(n), m + "(n)-reads-exactly-n", "read %d for n=%d" % (src.count, int(n)))
    if m == "peek":
      again = s.take(int(n))
      ctx.prove(src.count == int(n), "peek-buffers-instead-of-rereading")


def tasks(tier, seed):
  big = tier == "thorough"
  K, S = (8, 5) if big else (5, 3)
  T = []
  names = list(_registry_names())
  R = _registry()
  FORKY = ("unwrap", "zcross", "zcross-hyst", "zcross-first-sign", "clip", "clip-low-only", "amdf")   # branch on the data
  for n in names:
    k = K
    if n == "unwrap": k = 3 if not big else 4
    elif n in FORKY: k = min(K, 5)
    T.append(("h_stage", {"stage": n, "K": k, "S": S if n != "amdf" else min(S, 3)}))
  for n in ("Stream.filter", "ifilter", "takewhile", "dropwhile", "ifilterfalse"):
    T.append(("h_data_dependent", {"stage": n, "K": 4 if not big else 6}))
  samplewise = ["Stream+scalar", "Stream.map", "imap", "FIR", "IIR", "Cascade", "Parallel", "maverage.deque", "clip", "zcross",
                "unwrap", "accumulate.func", "time-varying", "envelope.abs"]
  blocky = ["blocks", "Stream.skip(n)", "zero_pad(left)", "resample-1:1", "overlap_add.list", "stft-wrapper", "Streamix"]
  pairs = []
  for a in samplewise:
    for b in samplewise:
      if big or (hash((a, b)) % 5 == 0): pairs.append((a, b))
  for a in samplewise[:8]:
    for b in blocky:
      pairs.append((a, b))
      if big or b in ("blocks", "Stream.skip(n)"): pairs.append((b, a)) if b not in ("blocks",) else None
  for a, b in pairs:
    if a is None or b is None: continue
    forky = a in FORKY or b in FORKY
    # two data-dependent stages in a row multiply their case splits (unwrap|unwrap lost 32 paths to the 60 s per-path
    # watchdog in a thorough run on a loaded machine): two outputs are enough to see a read-ahead there
    both = a in FORKY and b in FORKY
    T.append(("h_chain", {"first": a, "second": b, "K": 2 if both else (3 if (not big or forky) else 5), "S": 2 if not big else 3},
              {"path_s": 300} if (big and forky) else {}))
  for meth in ("take", "peek"):
    T.append(("h_peek_take", {"meth": meth, "K": K}))
  for stage in ("filter", "cascade", "karplus"):
    for memk in ("iterator", "stream", "generator"):
      for lm in (1, 2, 3):
        T.append(("h_secondary", {"stage": stage, "mem": memk, "lm": lm, "K": 3}))
  for stage in ("gain-stream", "tap-stream"):
    T.append(("h_secondary", {"stage": stage, "mem": "iterator", "lm": 1, "K": 3}))
  for st in ("Stream.limit", "islice", "Stream.take", "limit.copy", "limit+1", "peek-then-limit", "zip-with-finite"):
    T.append(("h_exhaust", {"stage": st, "K": K}))
  return T


def _registry_names():
  import warnings
  with warnings.catch_warnings():
    warnings.simplefilter("ignore")
    return list(_registry().keys())
