"""C18 - PCM byte codecs are exact: chunk packing and WAV sample decoding."""
import io
import struct as real_struct
import sys
import types
import wave as real_wave

import z3

from symrun.nums import And, Or, Not, Sym, SymInt, ExactInt, cur, Unsupported
from symrun.loader import load_with_fakes

META = {
  "functions": ["WavStream.__init__ (block_reader, sample_reader, data_generator, _unpackers incl. the 24-bit zero-prefix >> 8 "
                "trick)", "chunks.struct", "chunks.array", "lazy_misc.blocks"],
  "bounds": {"quick": "every byte of every frame a symbolic integer in 0..255, <=3 frames, widths 8/16/24/32, mono/stereo, keep "
                      "on/off; chunks: sequences of length 0..5 of symbolic elements, symbolic pad value, size 1..3, formats "
                      "b h i f d, byte orders None < > ! = @",
             "thorough": "<=5 frames, sequences of length 0..8, size 1..4"},
  "outside": "the C implementations of struct/array/wave (replaced by the contract stubs below in the symbolic runs; the native "
             "witness runs use the real modules and real WAV bytes), float formats' rounding, RecStream",
  "stubs": ["struct.Struct(fmt).unpack on symbolic bytes: little/big-endian two's complement for b h i (integer arithmetic)",
            "struct.Struct(fmt).pack / array.array: record the format, byte order and the element sequence handed over",
            "ord on a 1-byte symbolic string: the byte", "wave.open: fake reader with symbolic header and frames, counts close()"],
  "assumptions": ["pack followed by unpack with the same format is the identity on in-range integers (C library contract)"],
}
CAPS = {"quick": {"query_s": 10, "max_paths": 20000, "witness_every": 1},
        "thorough": {"query_s": 20, "max_paths": 200000, "witness_every": 1}}


# ---------------------------------------------------------------------------------------------------------
# symbolic bytes + codec contract stubs
# ---------------------------------------------------------------------------------------------------------
class SymBytes:
  def __init__(self, items): self.items = list(items)
  def __len__(self): return len(self.items)
  def __bool__(self): return len(self.items) > 0
  def __getitem__(self, i):
    if isinstance(i, slice): return SymBytes(self.items[i])
    return self.items[i]
  def __radd__(self, o):
    if isinstance(o, (bytes, bytearray)): return SymBytes(list(o) + self.items)
    return NotImplemented
  def __add__(self, o):
    if isinstance(o, SymBytes): return SymBytes(self.items + o.items)
    if isinstance(o, (bytes, bytearray)): return SymBytes(self.items + list(o))
    return NotImplemented
  def __iter__(self): return iter(self.items)


def sym_ord(v):
  if isinstance(v, SymBytes):
    if len(v) != 1: raise TypeError("ord() expected a character, but string of length %d found" % len(v))
    return v.items[0]
  return ord(v)


_SIZES = {"b": 1, "B": 1, "h": 2, "H": 2, "i": 4, "I": 4, "f": 4, "d": 8}


class Packed:
  """Token for packed bytes: which format/byte order and which elements were handed to the C codec.  Slicing at item
  boundaries and concatenation keep the bookkeeping (segments of (order, code, values)); anything finer is outside
  the stub."""
  def __init__(self, fmt, values=(), segs=None):
    if segs is not None:
      self.segs = segs; return
    order = fmt[0] if fmt[0] in "<>!=@" else "@"
    body = fmt[1:] if fmt[0] in "<>!=@" else fmt
    self.segs = [(order, body.lstrip("0123456789"), list(values))]
  @property
  def values(self): return [v for _, _, vs in self.segs for v in vs]
  @property
  def orders(self): return {o for o, _, vs in self.segs if vs}
  @property
  def codes(self): return {c for _, c, vs in self.segs if vs}
  def __len__(self): return sum(len(vs) * _SIZES[c] for _, c, vs in self.segs)
  def __getitem__(self, sl):
    if not isinstance(sl, slice) or sl.step not in (None, 1): raise Unsupported("byte-level access to packed data")
    start, stop, _ = sl.indices(len(self))
    out, pos = [], 0
    for o, c, vs in self.segs:
      w = _SIZES[c]
      lo, hi = max(start, pos), min(stop, pos + len(vs) * w)
      if lo < hi:
        if (lo - pos) % w or (hi - pos) % w: raise Unsupported("slice of packed data inside an item")
        out.append((o, c, vs[(lo - pos) // w:(hi - pos) // w]))
      pos += len(vs) * w
    return Packed(None, segs=out)
  def __add__(self, o):
    if isinstance(o, Packed): return Packed(None, segs=self.segs + o.segs)
    if isinstance(o, (bytes, bytearray)) and not o: return self
    return NotImplemented
  def __radd__(self, o):
    if isinstance(o, (bytes, bytearray)) and not o: return self
    return NotImplemented


_IRANGE = {"b": (-128, 127), "B": (0, 255), "h": (-2 ** 15, 2 ** 15 - 1), "H": (0, 2 ** 16 - 1),
           "i": (-2 ** 31, 2 ** 31 - 1), "I": (0, 2 ** 32 - 1)}


def _codec_accepts(code, v, who):
  """Argument contract of the C codecs for one item: integer formats take integers inside the format's range.  A plain
  Python float (e.g. the default pad value 0.) is refused, an out-of-range integer overflows; symbolic integers are
  decided by the solver against the range (the harness declares the range of every symbolic element, so this is a
  check that the code hands over what it was given, not an extra assumption)."""
  if code not in _IRANGE: return
  lo, hi = _IRANGE[code]
  if isinstance(v, SymInt):
    if not bool(And(v >= lo, v <= hi)):
      raise (real_struct.error("argument out of range") if who == "struct" else OverflowError("value out of range for '%s'" % code))
    return
  if isinstance(v, Sym):
    raise Unsupported("a symbolic real handed to the integer format %r" % code)
  if isinstance(v, bool) or isinstance(v, int):
    if not lo <= v <= hi:
      raise (real_struct.error("'%s' format requires %d <= number <= %d" % (code, lo, hi)) if who == "struct"
             else OverflowError("value out of range for typecode '%s'" % code))
    return
  if who == "struct": raise real_struct.error("required argument is not an integer")
  raise TypeError("'%s' object cannot be interpreted as an integer" % type(v).__name__)


class FakeStruct:
  def __init__(self, fmt):
    self.format = fmt
    order = fmt[0] if fmt[0] in "<>!=@" else "@"
    body = fmt[1:] if fmt[0] in "<>!=@" else fmt
    cnt = ""
    while body and body[0].isdigit(): cnt += body[0]; body = body[1:]
    self.order, self.count, self.code = order, int(cnt) if cnt else 1, body
    if len(body) != 1 or body not in _SIZES: raise real_struct.error("bad char in struct format")
    self.size = self.count * _SIZES[body]

  def unpack(self, data):
    if not isinstance(data, SymBytes):
      return real_struct.Struct(self.format).unpack(data)
    if len(data) != self.size: raise real_struct.error("unpack requires a buffer of %d bytes" % self.size)
    w = _SIZES[self.code]
    out = []
    for k in range(self.count):
      bs = data.items[k * w:(k + 1) * w]
      if self.order in (">", "!"): bs = bs[::-1]
      u = 0
      for i, b in enumerate(bs): u = u + b * (256 ** i)
      if self.code.islower() and self.code not in "fd":
        top = bs[-1]
        t = SymInt.ofint(top); ut = SymInt.ofint(u)
        u = SymInt(z3.If(t.iterm() >= 128, ut.iterm() - 256 ** w, ut.iterm()))
      out.append(u)
    return tuple(out)

  def pack(self, *vals):
    if len(vals) != self.count: raise real_struct.error("pack expected %d items for packing (got %d)" % (self.count, len(vals)))
    for v in vals: _codec_accepts(self.code, v, "struct")
    return Packed(self.format, vals)


class FakeArray:
  def __init__(self, code, init=()):
    self.typecode = code
    self.data = list(init.data) if isinstance(init, FakeArray) else list(init)
    self.swapped = init.swapped if isinstance(init, FakeArray) else False
    if not isinstance(init, FakeArray):
      for v in self.data: _codec_accepts(code, v, "array")
  def __setitem__(self, i, v):
    _codec_accepts(self.typecode, v, "array")
    self.data[i] = v
  def __getitem__(self, i): return self.data[i]
  def __len__(self): return len(self.data)
  @property
  def itemsize(self): return _SIZES[self.typecode]
  def _like(self, data):
    r = FakeArray(self.typecode, data); r.swapped = self.swapped
    return r
  def __mul__(self, n): return self._like(self.data * int(n))
  __rmul__ = __mul__
  def __add__(self, o):
    if not isinstance(o, FakeArray) or o.typecode != self.typecode or o.swapped != self.swapped:
      raise Unsupported("concatenation of unlike arrays")
    return self._like(self.data + o.data)
  def append(self, v):
    _codec_accepts(self.typecode, v, "array")
    self.data.append(v)
  def extend(self, vs):
    vs = vs.data if isinstance(vs, FakeArray) else list(vs)
    for v in vs: _codec_accepts(self.typecode, v, "array")
    self.data.extend(vs)
  def byteswap(self): self.swapped = not self.swapped
  def tobytes(self):
    native = "<" if sys.byteorder == "little" else ">"
    other = ">" if native == "<" else "<"
    return Packed((other if self.swapped else native) + str(len(self.data)) + self.typecode, self.data)
  def tostring(self):
    raise AttributeError("'array.array' object has no attribute 'tostring'")


def _fake_struct_module():
  m = types.ModuleType("struct")
  m.Struct = FakeStruct; m.error = real_struct.error
  m.pack = lambda fmt, *v: FakeStruct(fmt).pack(*v)
  m.unpack = lambda fmt, d: FakeStruct(fmt).unpack(d)
  m.calcsize = lambda fmt: FakeStruct(fmt).size
  return m


def _fake_array_module():
  m = types.ModuleType("array")
  m.array = FakeArray
  return m


class FakeWave:
  def __init__(self, rate, channels, width, frames):
    self.rate, self.channels, self.width, self.frames = rate, channels, width, list(frames)
    self.pos, self.closed, self.read_after_close = 0, 0, 0
  def getframerate(self): return self.rate
  def getnchannels(self): return self.channels
  def getsampwidth(self): return self.width
  def readframes(self, n):
    if self.closed: self.read_after_close += 1
    out = []
    for _ in range(n):
      if self.pos < len(self.frames):
        out.extend(self.frames[self.pos].items); self.pos += 1
    return SymBytes(out) if out else b""
  def close(self): self.closed += 1


def _sym_wav_module(fake_reader):
  w = types.ModuleType("wave")
  w.open = lambda f, mode="rb": fake_reader
  return load_with_fakes("audiolazy/lazy_wav.py", {"struct": _fake_struct_module(), "wave": w}, {"ord": sym_ord},
                         name="audiolazy.lazy_wav__stubbed")


def _ref_int(bs, signed):
  """little-endian integer of the stored bytes (independent of the stub: plain arithmetic + comparison)"""
  u = 0
  for i, b in enumerate(bs): u = u + b * (256 ** i)
  if signed and bool(bs[-1] >= 128): u = u - 256 ** len(bs)
  return u


def h_wav(ctx, cfg):
  width, ch, keep, nfr = cfg["width"], cfg["channels"], cfg["keep"], cfg["frames"]
  rate = ctx.int("rate", 1, 192000)
  frames = [[ctx.int("f%d_%d" % (i, j), 0, 255) for j in range(width * ch)] for i in range(nfr)]
  bits = 8 * width
  if ctx.mode == "sym":
    reader = FakeWave(rate, ch, width, [SymBytes(f) for f in frames])
    ns = _sym_wav_module(reader)
    # wave.open is looked up at call time through the module object bound at import: rebind for this path
    ns["wave"].open = lambda f, mode="rb": reader
    ws = ns["WavStream"]("whatever.wav", keep=keep)
  else:
    from audiolazy.lazy_wav import WavStream
    buf = io.BytesIO()
    wf = real_wave.open(buf, "wb")
    wf.setnchannels(ch); wf.setsampwidth(width); wf.setframerate(int(rate))
    wf.writeframes(bytes(b for f in frames for b in f)); wf.close()
    buf.seek(0)
    closes = [0]
    ws = WavStream(buf, keep=keep)
    real_close = ws._file.close
    def counting_close():
      closes[0] += 1; return real_close()
    ws._file.close = counting_close
  ctx.prove(ws.rate == rate and ws.channels == ch and ws.bits == bits, "attributes-mirror-the-header",
            "rate=%r channels=%r bits=%r" % (ws.rate, ws.channels, ws.bits))
  ncl = (lambda: reader.closed) if ctx.mode == "sym" else (lambda: closes[0])
  it = iter(ws)
  out = []
  for i in range(nfr * ch):
    ctx.prove(ncl() == 0, "file-not-closed-before-exhaustion", "closed after %d samples" % i)
    out.append(next(it))
  try:
    next(it); extra = True
  except StopIteration:
    extra = False
  ctx.prove(not extra, "exactly-frames*channels-samples")
  ctx.prove(ncl() == 1, "file-closed-once-after-exhaustion", "close() called %d times" % ncl())
  ctx.prove(type(ws.bits) is int and type(ws.channels) is int and ws.rate == rate and ws.channels == ch and ws.bits == bits,
            "attributes-mirror-the-header", "after exhaustion: rate=%r channels=%r bits=%r" % (ws.rate, ws.channels, ws.bits))
  d = 1 << (bits - 1)
  n = 0
  for f in frames:
    for c in range(ch):
      bs = f[c * width:(c + 1) * width]
      raw = _ref_int(bs, signed=(width != 1))
      got = out[n]; n += 1
      ctx.observe("s", got)
      if keep:
        ctx.prove(ctx.eq(got, raw), "keep:stored-integer-(unsigned-8-bit,sign-extended-otherwise)", "sample %d" % (n - 1))
      else:
        val = (raw - 128) if width == 1 else raw
        ctx.prove(ctx.eq(got * d, val), "normalised:integer/2^(bits-1)", "sample %d" % (n - 1))
        ctx.prove(And(got >= -1, got < 1), "normalised-in-[-1,1)", "sample %d" % (n - 1))


def _sym_io_module():
  return load_with_fakes("audiolazy/lazy_io.py", {"struct": _fake_struct_module(), "array": _fake_array_module()},
                         name="audiolazy.lazy_io__stubbed")


def _decode(chunk, size, dfmt, byte_order):
  """-> (list of values, effective byte order '<' or '>')"""
  native = "<" if sys.byteorder == "little" else ">"
  if isinstance(chunk, Packed):
    effs = {{"<": "<", ">": ">", "!": ">", "=": native, "@": native}[o] for o in chunk.orders}
    eff = effs.pop() if len(effs) == 1 else ("mixed" if effs else {"<": "<", ">": ">", "!": ">", "=": native, "@": native}[byte_order or "@"])
    codes = chunk.codes
    body = str(len(chunk.values)) + (codes.pop() if len(codes) == 1 else "?")
    return list(chunk.values), eff, body
  order = byte_order or "@"
  eff = {"<": "<", ">": ">", "!": ">", "=": native, "@": native}[order]
  fmt = (byte_order or "") + str(size) + dfmt
  return list(real_struct.unpack(fmt, chunk)), eff, str(size) + dfmt


def h_chunks(ctx, cfg):
  dfmt, bo = cfg["dfmt"], cfg["byte_order"]
  L = ctx.split("L", 0, cfg["L"]); size = ctx.split("size", 1, cfg["S"])
  isint = dfmt in "bhi"
  lim = {"b": 127, "h": 32767, "i": 2 ** 31 - 1}.get(dfmt, 0)
  if isint:
    seq = [ctx.int("e%d" % i, -lim - 1, lim) for i in range(L)]; pad = ctx.int("pad", -lim - 1, lim)
  else:
    # floats: dyadic values survive the C float conversion exactly in the native witness run
    seq = [ctx.int("e%d" % i, -64, 64) for i in range(L)]; pad = ctx.int("pad", -64, 64)
    if ctx.mode == "concrete": seq = [v / 8.0 for v in seq]; pad = pad / 8.0
    else: seq = [v / 8 for v in seq]; pad = pad / 8
  if ctx.mode == "sym":
    ch = _sym_io_module()["chunks"]
  else:
    from audiolazy import chunks as ch
  want = list(seq)
  while len(want) % size: want.append(pad)
  res = {}
  for strat in ("struct", "array"):
    kw = {"size": size, "dfmt": dfmt, "padval": pad}
    if bo != "default": kw["byte_order"] = bo
    from audiolazy import Stream
    given = {"iter": lambda: iter(list(seq)), "list": lambda: list(seq), "tuple": lambda: tuple(seq),
             "gen": lambda: (v for v in seq), "stream": lambda: Stream(list(seq))}[cfg.get("seq", "iter")]()
    out = list(ch[strat](given, **kw))
    vals, effs, bodies = [], set(), set()
    for c in out:
      v, eff, body = _decode(c, size, dfmt, None if bo == "default" else bo)
      vals.extend(v); effs.add(eff); bodies.add(body)
    res[strat] = (vals, effs, len(out))
    ctx.prove(len(out) * size == len(want), strat + ":number-of-chunks", "%d chunks of %d for %d items" % (len(out), size, len(want)))
    ctx.prove(len(vals) == len(want) and And(*[ctx.eq(a, b) for a, b in zip(vals, want)]) if want else len(vals) == 0,
              strat + ":chunks-hold-the-sequence-then-pad-values", "")
    ctx.prove(all(b == str(size) + dfmt for b in bodies), strat + ":each-chunk-has-size-items-of-the-format", "%r" % (bodies,))
    native = "<" if sys.byteorder == "little" else ">"
    want_eff = {"default": native, None: native, "<": "<", ">": ">", "!": ">", "=": native, "@": native}[bo]
    if dfmt != "b":        # a byte order is meaningless (unobservable) for one-byte items
      ctx.prove(effs <= {want_eff}, strat + ":byte-order-honoured", "effective %r wanted %r" % (effs, want_eff))
  ctx.prove(res["struct"][2] == res["array"][2], "struct-and-array-strategies-agree")
  if ctx.mode == "concrete":
    kw = {"size": size, "dfmt": dfmt, "padval": pad}
    if bo != "default": kw["byte_order"] = bo
    a = b"".join(ch.struct(list(seq), **kw)); b = b"".join(ch.array(list(seq), **kw))
    ctx.prove(a == b, "struct-and-array-strategies-agree", "bytes differ")


def h_chunks_two_orders(ctx, cfg):
  """Successive calls with the same size/format but different byte orders each honour their own byte order."""
  dfmt = cfg["dfmt"]; size = cfg["size"]
  if ctx.mode == "sym": ch = _sym_io_module()["chunks"]
  else:
    from audiolazy import chunks as ch
  lim = {"h": 32767, "i": 2 ** 31 - 1}[dfmt]
  seq = [ctx.int("e%d" % i, -lim - 1, lim) for i in range(size)]
  native = "<" if sys.byteorder == "little" else ">"
  for strat in ("struct", "array"):
    for bo in cfg["orders"]:
      out = list(ch[strat](list(seq), size=size, dfmt=dfmt, byte_order=bo, padval=0))
      ctx.prove(len(out) == 1, strat + ":one-chunk")
      vals, eff, body = _decode(out[0], size, dfmt, bo)
      want_eff = {None: native, "<": "<", ">": ">", "!": ">", "=": native, "@": native}[bo]
      ctx.prove(eff == want_eff, strat + ":byte-order-honoured-on-every-call", "call with %r gave %r" % (bo, eff))
      ctx.prove(And(*[ctx.eq(a, b) for a, b in zip(vals, seq)]), strat + ":values-decode-with-the-requested-order", "order %r" % (bo,))


def h_chunks_default_size(ctx, cfg):
  """size=None uses chunks.size (class attribute, 2048)."""
  if ctx.mode == "sym":
    ch = _sym_io_module()["chunks"]
  else:
    from audiolazy import chunks as ch
  x = [ctx.int("e%d" % i, -100, 100) for i in range(3)]
  dfmt = cfg.get("dfmt", "h")
  for strat in ("struct", "array"):
    out = list(ch[strat](list(x), dfmt=dfmt, padval=0))
    ctx.prove(len(out) == 1, strat + ":default-size-one-chunk")
    v, eff, body = _decode(out[0], ch.size, dfmt, None)
    ctx.prove(len(v) == ch.size and And(*[ctx.eq(a, b) for a, b in zip(v[:3], x)]) and all(bool(ctx.eq(t, 0)) for t in v[3:8]),
              strat + ":default-size-padded-to-chunks.size")


def h_chunks_big_size(ctx, cfg):
  """Chunk sizes around and beyond the value range of the item format."""
  if ctx.mode == "sym":
    ch = _sym_io_module()["chunks"]
  else:
    from audiolazy import chunks as ch
  dfmt, size = cfg["dfmt"], cfg["size"]
  lo, hi = _IRANGE[dfmt]
  x = [ctx.int("e%d" % i, lo, hi) for i in range(2)]; pad = ctx.int("pad", lo, hi)
  res = {}
  for strat in ("struct", "array"):
    out = list(ch[strat](list(x), size=size, dfmt=dfmt, padval=pad))
    ctx.prove(len(out) == 1, strat + ":number-of-chunks")
    v, eff, body = _decode(out[0], size, dfmt, None)
    ctx.prove(len(v) == size and And(*[ctx.eq(a, b) for a, b in zip(v, x + [pad] * (size - 2))]),
              strat + ":chunks-hold-the-sequence-then-pad-values")
    res[strat] = out[0]
  if ctx.mode == "concrete":
    ctx.prove(res["struct"] == res["array"], "struct-and-array-strategies-agree", "bytes differ")


def tasks(tier, seed):
  big = tier == "thorough"
  T = []
  for width in (1, 2, 3, 4):
    for ch in (1, 2):
      for keep in (True, False):
        for nfr in ((0, 1, 3) if not big else (0, 1, 2, 5)):
          if nfr == 3 and width * ch >= 6: nfr = 2
          T.append(("h_wav", {"width": width, "channels": ch, "keep": keep, "frames": nfr}))
  for dfmt in "bhifd":
    for bo in ("default", None, "<", ">", "!", "=", "@"):
      T.append(("h_chunks", {"dfmt": dfmt, "byte_order": bo, "L": 8 if big else 5, "S": 4 if big else 3}))
  # the sequence may be any iterable: list, tuple, generator, Stream
  for kind in ("list", "tuple", "gen", "stream"):
    for dfmt in "hf":
      T.append(("h_chunks", {"dfmt": dfmt, "byte_order": "default", "L": 8 if big else 5, "S": 4 if big else 3, "seq": kind}))
  # the default chunk size (2048 items) is larger than the range of the one-byte formats
  for dfmt in "hbi":
    T.append(("h_chunks_default_size", {"dfmt": dfmt}))
  # a chunk size beyond the range of the item format (size is an enumerated boundary value here, the data are symbolic)
  for dfmt, size in (("b", 127), ("b", 128), ("b", 129), ("b", 300)):
    T.append(("h_chunks_big_size", {"dfmt": dfmt, "size": size}))
  for dfmt in "hi":
    for orders in (["<", ">", "<"], [">", "<"], ["!", None, ">"], [None, ">", "="]):
      T.append(("h_chunks_two_orders", {"dfmt": dfmt, "size": 2, "orders": orders}))
  return T
