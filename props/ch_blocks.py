"""CrossHair contracts for C08 (run by props/C08.py: `crosshair check --report_all`).

Every check_* function calls the repository's real blocks/zero_pad on CrossHair's symbolic
inputs and compares with a slice-based reference; *_twin has the negated postcondition and
must be refuted (reachability witness against vacuous preconditions).
"""
import os
import warnings
warnings.simplefilter("ignore")
from typing import List
from crosshair import realize
from audiolazy.lazy_misc import blocks, zero_pad
from audiolazy.lazy_stream import Stream

MAXLEN = int(os.environ.get("CH_MAXLEN", "6"))
MAXHOP = int(os.environ.get("CH_MAXHOP", "5"))
MAXPAD = int(os.environ.get("CH_MAXPAD", "4"))


def ref_blocks(seq, size, hop, pad):
  out = []
  k = 0
  n = len(seq)
  while k * hop + size <= n:
    out.append(list(seq[k * hop:k * hop + size]))
    k += 1
  rem = n - k * hop
  if rem > max(size - hop, 0):
    out.append(list(seq[k * hop:]) + [pad] * (size - rem))
  return out


def check_blocks(seq: List[int], size: int, hop: int, pad: int) -> bool:
  """
  pre: 1 <= size <= 4 and 1 <= hop <= MAXHOP and len(seq) <= MAXLEN
  post: _
  """
  size = realize(size); hop = realize(hop)
  got = [list(b) for b in blocks(iter(seq), size, hop, pad)]
  return got == ref_blocks(seq, size, hop, pad)


def check_blocks_twin(seq: List[int], size: int, hop: int, pad: int) -> bool:
  """
  pre: 1 <= size <= 4 and 1 <= hop <= MAXHOP and len(seq) <= MAXLEN
  post: not _
  """
  size = realize(size); hop = realize(hop)
  got = [list(b) for b in blocks(iter(seq), size, hop, pad)]
  return got == ref_blocks(seq, size, hop, pad)


def check_stream_blocks(seq: List[int], size: int, pad: int) -> bool:
  """
  pre: 1 <= size <= 4 and len(seq) <= MAXLEN
  post: _
  """
  size = realize(size)
  got = [list(b) for b in Stream(seq).blocks(size=size, padval=pad)]
  return got == ref_blocks(seq, size, size, pad)


def check_zero_pad(seq: List[int], left: int, right: int, zero: int) -> bool:
  """
  pre: 0 <= left <= MAXPAD and 0 <= right <= MAXPAD and len(seq) <= MAXLEN
  post: _
  """
  left = realize(left); right = realize(right)
  return list(zero_pad(seq, left, right, zero)) == [zero] * left + list(seq) + [zero] * right


def check_zero_pad_twin(seq: List[int], left: int, right: int, zero: int) -> bool:
  """
  pre: 0 <= left <= MAXPAD and 0 <= right <= MAXPAD and len(seq) <= MAXLEN
  post: not _
  """
  left = realize(left); right = realize(right)
  return list(zero_pad(seq, left, right, zero)) == [zero] * left + list(seq) + [zero] * right
