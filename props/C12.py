"""C12 - frequency response is the transfer function and matches the time domain."""
import cmath
import collections
import math
from fractions import Fraction

from symrun.nums import And, Or, Not, Sym, SymComplex
from symrun.stubs import patched, TrigStub

META = {
  "functions": ["LinearFilter.freq_response (+ elementwise over containers of frequencies)", "Poly.__call__ on complex points",
                "CascadeFilter.freq_response", "ParallelFilter.freq_response", "lazy_analysis.dft", "LinearFilter.__call__ on a "
                "complex exponential input"],
  "bounds": {"quick": "numerator/denominator with <=3 coefficients each (order<=2), all coefficients symbolic reals, the frequency w "
                      "symbolic over the whole circle (as (cos w, sin w) with cos^2+sin^2=1) plus the exact points 0 and pi; "
                      "dft blocks of length <=3; complex exponential through FIR filters of order<=2 for 5 samples",
             "thorough": "<=4 coefficients each (order<=3), dft blocks <=5, 7 samples"},
  "outside": "the 'rigorous rounding-error bound' reading of the property: numbers are exact reals here, floats only in the native "
             "witness/replay runs (1e-7 tolerance); Stream-valued coefficients in freq_response",
  "stubs": ["cmath.exp (lazy_filters.complex_exp, lazy_analysis.cexp) on a purely imaginary symbolic argument i*k*w: (cos w + i sin w)^k "
            "by de Moivre over one (c, s) pair with c^2+s^2 = 1"],
  "assumptions": ["exact real arithmetic"],
}
CAPS = {"quick": {"query_s": 30, "max_paths": 6000, "witness_every": 1, "witness_floats": True},
        "thorough": {"query_s": 90, "max_paths": 40000, "witness_every": 3, "witness_floats": True}}


def _setup(ctx, at="any"):
  import audiolazy.lazy_filters as lf
  import audiolazy.lazy_analysis as la
  trig = TrigStub(ctx)
  w = trig.angle("w")
  if ctx.mode == "sym":
    c, s = trig.cs_of(w)
    if at == "zero": ctx.assume(And(c == 1, s == 0))
    elif at == "pi": ctx.assume(And(c == -1, s == 0))
    elif at == "half": ctx.assume(And(c == 0, s == 1))
  else:
    if at == "zero": w = 0.0
    elif at == "pi": w = math.pi
    elif at == "half": w = math.pi / 2
  # every trigonometric name these modules (may) use goes through the same contract stub
  from audiolazy.lazy_misc import elementwise
  cosf = elementwise("x", 0)(trig.cos); sinf = elementwise("x", 0)(trig.sin)
  if ctx.mode == "sym":
    P = patched(lf, complex_exp=trig.cexp, cos=cosf, sin=sinf)
    Q = patched(la, cexp=trig.cexp, cos=cosf, sin=sinf)
  else:
    P = patched(lf, complex_exp=trig.cexp)
    Q = patched(la, cexp=trig.cexp)
  return trig, w, P, Q


def _zinv(ctx, trig, w):
  """e^{-jw} as SymComplex / complex"""
  if ctx.mode == "sym":
    c, s = trig.cs_of(w)
    return SymComplex(c, -s)
  return cmath.exp(-1j * w)


def _polyval(coefs, zi):
  acc = 0
  for k, c in coefs.items():
    acc = acc + c * zi ** k
  return acc


def _mk(ctx, tag, nb, na, lead=0):
  """lead > 0: the numerator starts at z**+lead (look-ahead / zero-phase filters have a response too)"""
  from audiolazy import ZFilter
  b = {k - lead: ctx.real("%sb%d" % (tag, k)) for k in range(nb)}
  a = {k: ctx.real("%sa%d" % (tag, k), nonzero=(k == 0)) for k in range(na)}
  return ZFilter(dict(b), dict(a)), b, a


def _isnan(v):
  return isinstance(v, float) and v != v


def h_response(ctx, cfg):
  trig, w, P, Q = _setup(ctx, cfg.get("at", "any"))
  with P, Q:
    filt, b, a = _mk(ctx, "f", cfg["nb"], cfg["na"], cfg.get("lead", 0))
    H = filt.freq_response(w)
    zi = _zinv(ctx, trig, w)
    N, D = _polyval(b, zi), _polyval(a, zi)
    if ctx.mode == "concrete" and abs(D) < 1e-9 and D != 0:
      ctx.exclude("denominator numerically ~0 at the probed frequency: float rounding decides between nan and a huge value")
    dzero = ctx.eq(D, 0)
    if _isnan(H):
      ctx.prove(dzero, "nan-only-where-the-denominator-vanishes")
    else:
      ctx.prove(Not(dzero) if ctx.mode == "sym" else (abs(D) > 1e-9), "nan-where-the-denominator-vanishes", "H=%r" % (H,))
      ctx.observe("H", H)
      ctx.prove(ctx.eq(H * D, N), "H(w)*sum a[k]e^{-jwk} = sum b[k]e^{-jwk}")


def h_containers(ctx, cfg):
  from audiolazy import Stream
  trig, w, P, Q = _setup(ctx)
  with P, Q:
    filt, b, a = _mk(ctx, "f", 2, 2)
    zi = _zinv(ctx, trig, w)
    D = _polyval(a, zi)
    if bool(ctx.eq(D, 0)) if ctx.mode == "sym" else abs(D) < 1e-9: ctx.exclude("denominator vanishes")
    want = filt.freq_response(w)
    kind = cfg["kind"]
    arg = {"list": [w, w], "tuple": (w, w), "deque": collections.deque([w, w]), "stream": Stream([w, w]),
           "gen": (x for x in [w, w])}[kind]
    res = filt.freq_response(arg)
    if kind == "gen":
      ctx.prove(isinstance(res, type(x for x in [])), "lazy-frequencies-stay-lazy")
    else:
      ctx.prove(type(res) is type(arg), "container-kind-preserved", "%s -> %s" % (kind, type(res).__name__))
    got = list(res)
    ctx.prove(len(got) == 2 and And(ctx.eq(got[0], want), ctx.eq(got[1], want)), "applied-per-element")
    kwres = filt.freq_response(freq=[w])
    ctx.prove(isinstance(kwres, list) and len(kwres) == 1 and bool(ctx.eq(kwres[0], want)), "keyword-argument-broadcast")


def h_composite(ctx, cfg):
  from audiolazy import CascadeFilter, ParallelFilter
  trig, w, P, Q = _setup(ctx, cfg.get("at", "any"))
  with P, Q:
    f, fb, fa = _mk(ctx, "f", *cfg["f"]); g, gb, ga = _mk(ctx, "g", *cfg["g"])
    zi = _zinv(ctx, trig, w)
    Nf, Df, Ng, Dg = _polyval(fb, zi), _polyval(fa, zi), _polyval(gb, zi), _polyval(ga, zi)
    for Dx in (Df, Dg):
      if (bool(ctx.eq(Dx, 0)) if ctx.mode == "sym" else abs(Dx) < 1e-9): ctx.exclude("denominator vanishes at w")
    C = CascadeFilter(f, g).freq_response(w)
    Pr = ParallelFilter(f, g).freq_response(w)
    ctx.prove(ctx.eq(C * Df * Dg, Nf * Ng), "cascade-response-is-the-product")
    ctx.prove(ctx.eq(Pr * Df * Dg, Nf * Dg + Ng * Df), "parallel-response-is-the-sum")
    lst = CascadeFilter(f, g).freq_response([w])
    ctx.prove(isinstance(lst, list) and bool(ctx.eq(lst[0], C)), "cascade-response-over-containers")
    lst = ParallelFilter(f, g).freq_response((w,))
    ctx.prove(isinstance(lst, tuple) and bool(ctx.eq(lst[0], Pr)), "parallel-response-over-containers")
    # the lists are mutable: the response is the product / sum of the sections the list holds NOW
    cas, par = CascadeFilter(f, g), ParallelFilter(f, g)
    cas.freq_response(w); par.freq_response(w)
    cas[1] = f; par[0] = g
    ctx.prove(ctx.eq(cas.freq_response(w) * Df * Df, Nf * Nf), "cascade-response-is-the-product", "after cas[1] = f")
    ctx.prove(ctx.eq(par.freq_response(w) * Dg, 2 * Ng), "parallel-response-is-the-sum", "after par[0] = g")
    cas.append(g); del par[0]
    ctx.prove(ctx.eq(cas.freq_response(w) * Df * Df * Dg, Nf * Nf * Ng), "cascade-response-is-the-product", "after append")
    ctx.prove(ctx.eq(par.freq_response(w) * Dg, Ng), "parallel-response-is-the-sum", "after del par[0]")


def h_composite_containers(ctx, cfg):
  """Cascade / parallel responses over a container holding two DIFFERENT frequencies, including one-shot containers
  (generator, Stream): element i is the product / sum of the section responses at frequency i."""
  from audiolazy import CascadeFilter, ParallelFilter, Stream
  trig, w, P, Q = _setup(ctx)
  v = trig.angle("v")
  with P, Q:
    f, fb, fa = _mk(ctx, "f", *cfg["f"]); g, gb, ga = _mk(ctx, "g", *cfg["g"])
    pts = []
    for ang in (w, v):
      zi = _zinv(ctx, trig, ang)
      Nf, Df, Ng, Dg = _polyval(fb, zi), _polyval(fa, zi), _polyval(gb, zi), _polyval(ga, zi)
      for Dx in (Df, Dg):
        if (bool(ctx.eq(Dx, 0)) if ctx.mode == "sym" else abs(Dx) < 1e-9): ctx.exclude("denominator vanishes")
      pts.append((Nf, Df, Ng, Dg))
    kind = cfg["kind"]
    mk = {"list": lambda: [w, v], "tuple": lambda: (w, v), "gen": lambda: (a for a in [w, v]), "stream": lambda: Stream([w, v]),
          "iter": lambda: iter([w, v])}[kind]
    for name, filt, comb in (("cascade", CascadeFilter(f, g), lambda Nf, Df, Ng, Dg: (Nf * Ng, Df * Dg)),
                             ("parallel", ParallelFilter(f, g), lambda Nf, Df, Ng, Dg: (Nf * Dg + Ng * Df, Df * Dg))):
      res = filt.freq_response(mk())
      if kind in ("list", "tuple"):
        ctx.prove(type(res) is type(mk()), "container-kind-preserved", "%s: %s" % (name, type(res).__name__))
      got = list(res)
      ctx.prove(len(got) == 2, name + "-response-over-containers", "%d values for 2 frequencies (%s)" % (len(got), kind))
      for i, (pt, h) in enumerate(zip(pts, got)):
        num, den = comb(*pt)
        ctx.prove(ctx.eq(h * den, num), name + "-response-over-containers", "frequency %d of a %s" % (i, kind))


def h_dft(ctx, cfg):
  from audiolazy import ZFilter
  from audiolazy.lazy_analysis import dft
  trig, w, P, Q = _setup(ctx, cfg.get("at", "any"))
  with P, Q:
    n = cfg["n"]
    h = ctx.reals("h", n); g = ctx.reals("g", n)
    al = ctx.real("al"); be = ctx.real("be")
    zi = _zinv(ctx, trig, w)
    X = dft(list(h), [w], normalize=False)
    ctx.prove(len(X) == 1, "one-bin-per-frequency")
    defsum = 0
    for k in range(n): defsum = defsum + h[k] * zi ** k
    ctx.observe("X", X[0]) if n else None
    ctx.prove(ctx.eq(X[0], defsum), "dft-is-the-defining-sum")
    if n:
      H = ZFilter(list(h)).freq_response(w)
      ctx.prove(ctx.eq(H, X[0]) if not _isnan(H) else False, "unnormalised-dft-of-impulse-response-is-freq_response")
      Xn = dft(list(h), [w], normalize=True)
      ctx.prove(ctx.eq(Xn[0] * n, defsum), "normalised-dft-divides-by-len")
    comb = dft([al * x + be * y for x, y in zip(h, g)], (w,), normalize=False)
    Y = dft(tuple(g), [w], normalize=False)
    ctx.prove(ctx.eq(comb[0], al * X[0] + be * Y[0]), "dft-is-linear")
    if n:
      dc = dft(list(h), [0], normalize=True) if ctx.mode == "concrete" else dft(list(h), [0 * w], normalize=True)
      mean = sum(h[1:], h[0]) / n
      ctx.prove(ctx.eq(dc[0], mean), "normalised-DC-bin-is-the-block-mean")
    two = dft(list(h), [w, w], normalize=False)
    ctx.prove(len(two) == 2 and bool(ctx.eq(two[1], X[0])), "bins-in-the-order-of-the-frequencies")
    if n and cfg.get("complex", True):
      # complex samples and a frequency list holding w and -w: each bin is still the defining sum of ITS frequency
      blk = [SymComplex(0 * x, x) if ctx.mode == "sym" else 1j * x for x in h]           # j*h
      zc = zi.conjugate() if ctx.mode != "sym" else SymComplex(zi.re, -zi.im)             # e^{+jw} = e^{-j(-w)}
      pair = dft(list(blk), [w, -w], normalize=False)
      sum_w, sum_mw = 0, 0
      for k in range(n):
        sum_w = sum_w + blk[k] * zi ** k
        sum_mw = sum_mw + blk[k] * zc ** k
      ctx.prove(len(pair) == 2 and bool(ctx.eq(pair[0], sum_w)), "dft-is-the-defining-sum", "complex block, bin w")
      ctx.prove(len(pair) == 2 and bool(ctx.eq(pair[1], sum_mw)), "dft-is-the-defining-sum", "complex block, bin -w listed after w")


def h_exponential(ctx, cfg):
  """A complex exponential through a FIR filter is scaled by freq_response(w) once the memory is full."""
  from audiolazy import ZFilter
  trig, w, P, Q = _setup(ctx)
  with P, Q:
    nb = cfg["nb"]; M = cfg["M"]
    b = ctx.reals("b", nb)
    a0 = ctx.real("a0", nonzero=True)                 # a constant denominator: still a FIR filter, gain 1/a0
    filt = ZFilter(list(b), [a0])
    if ctx.mode == "sym":
      c, s = trig.cs_of(w); e1 = SymComplex(c, s)
    else:
      e1 = cmath.exp(1j * w)
    x = [e1 ** k for k in range(M)]
    out = list(filt(list(x), zero=0))
    H = filt.freq_response(w)
    ctx.prove(len(out) == M, "one-output-per-input")
    for k in range(nb - 1, M):
      ctx.prove(ctx.eq(out[k], H * x[k]), "exponential-is-scaled-by-H(w)-once-memory-is-full", "n=%d" % k)


def tasks(tier, seed):
  big = tier == "thorough"
  T = []
  shapes = [(1, 1), (2, 1), (1, 2), (2, 2), (3, 1), (1, 3), (3, 2), (2, 3), (3, 3)]
  if big: shapes += [(4, 1), (1, 4), (4, 2), (2, 4), (4, 3), (3, 4)]
  for nb, na in shapes:
    T.append(("h_response", {"nb": nb, "na": na}))
    if nb + na <= 5:
      for at in ("zero", "pi", "half"):
        T.append(("h_response", {"nb": nb, "na": na, "at": at}))
  for nb, na, lead in ((1, 1, 1), (3, 1, 1), (2, 2, 1), (3, 2, 2)):
    T.append(("h_response", {"nb": nb, "na": na, "lead": lead}))
  for kind in ("list", "tuple", "deque", "stream", "gen"):
    T.append(("h_containers", {"kind": kind}))
  for f, g in (((1, 1), (1, 1)), ((2, 1), (1, 2)), ((2, 2), (1, 1)), ((1, 2), (1, 2)), ((2, 1), (2, 1))) + \
              ((((2, 2), (2, 2)), ((3, 1), (1, 3))) if big else ()):
    T.append(("h_composite", {"f": f, "g": g}))
  T.append(("h_composite", {"f": (2, 1), "g": (1, 2), "at": "pi"}))
  for kind in ("list", "tuple", "gen", "stream", "iter"):
    T.append(("h_composite_containers", {"f": (2, 1), "g": (1, 2), "kind": kind}))
  for n in ((0, 1, 2, 3) if not big else (0, 1, 2, 3, 5)):
    T.append(("h_dft", {"n": n}))
    if n in (2, 3): T.append(("h_dft", {"n": n, "at": "pi"}))
  for nb in ((1, 2, 3) if not big else (1, 2, 3, 4)):
    T.append(("h_exponential", {"nb": nb, "M": 5 if not big else 7}))
  return T
