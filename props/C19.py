"""C19 - signal generators produce their closed-form sequences and lengths."""
import math
from fractions import Fraction

import z3

from symrun.nums import And, Or, Not, Sym, SymInt, ExactInt, frac_of_float
from symrun.stubs import patched, isinf

META = {
  "functions": ["line", "fadein", "fadeout", "attack", "ones", "zeros", "adsr", "impulse", "white_noise", "modulo_counter "
                "(all eight argument-kind branches, batched and plain paths)", "TableLookup.__call__/__getitem__/operators",
                "sinusoid", "karplus_strong", "resample", "lagrange.func", "lazy_misc.rint"],
  "bounds": {"quick": "durations symbolic reals in [0, 4] (integer part split by the solver), begin/end/start/step symbolic reals, "
                      "modulo from {1, 5/2, 7}, |step| in {0} U [1/4, 3], 6 outputs; table size <=4 with symbolic entries; "
                      "resample: order 0..3, symbolic step in (0, 2], <=5 inputs",
             "thorough": "durations in [0, 6], 10 outputs, table size <=5, resample <=7 inputs"},
  "outside": "gauss_noise (no checkable bound), negative or symbolic modulo (x mod m with symbolic m is nonlinear mixed "
             "integer/real), modulo streams that change value, the irrational value of 2*pi (a rational constant here)",
  "stubs": ["lazy_synth.isinf: False on proxies", "random.uniform(a,b): fresh r with a<=r<=b (records a, b)",
            "lazy_synth.sin: uninterpreted function recording its argument (sinusoid)"],
  "assumptions": ["exact real arithmetic; float constants are the simplest rationals that round to them"],
}
CAPS = {"quick": {"query_s": 20, "max_paths": 40000, "witness_every": 2},
        "thorough": {"query_s": 60, "max_paths": 400000, "witness_every": 5}}


def _synth():
  import audiolazy.lazy_synth as ls
  return ls


def _nsamples(ctx, dur):
  """int(dur + .5) for a symbolic non-negative duration, by the harness's own split"""
  return int(math.floor(dur + Fraction(1, 2)))


def h_line(ctx, cfg):
  ls = _synth()
  with patched(ls, isinf=isinf):
    dur = ctx.real("dur", 0, cfg["D"])
    begin = ctx.real("begin"); end = ctx.real("end")
    finish = cfg["finish"]
    fn = cfg["fn"]
    if finish: ctx.assume(dur != 1) if cfg.get("exclude_one") else None
    if fn == "line":
      out = list(ls.line(dur, begin, end, finish=finish))
    elif fn == "fadein":
      out = list(ls.fadein(dur)); begin, end = 0, 1
    else:
      out = list(ls.fadeout(dur)); begin, end = 1, 0
    n = _nsamples(ctx, dur)
    ctx.prove(len(out) == n, "line-has-int(dur+.5)-samples", "len=%d want=%d" % (len(out), n))
    den = dur - (1 if finish else 0)
    for i in range(min(n, len(out))):
      ctx.observe("l", out[i])
      if i == 0:
        ctx.prove(ctx.eq(out[0], begin), "line-starts-at-begin")
      else:
        # den != 0 here: a second sample needs dur >= 1.5
        ctx.prove(ctx.eq((out[i] - begin) * den, i * (end - begin)), "line-sample-i-is-begin+i*(end-begin)/(dur-finish)", "i=%d" % i)


def h_const_gens(ctx, cfg):
  ls = _synth()
  with patched(ls, isinf=isinf):
    dur = ctx.real("dur", 0, cfg["D"])
    n = _nsamples(ctx, dur)
    fn = cfg["fn"]
    if fn in ("ones", "zeros"):
      out = list(getattr(ls, fn)(dur))
      ctx.prove(len(out) == n and all(v == (1.0 if fn == "ones" else 0.0) for v in out), fn + "-duration-and-value", "len=%d n=%d" % (len(out), n))
    elif fn == "impulse":
      one = ctx.real("one"); zero = ctx.real("zero")
      out = list(ls.impulse(dur, one=one, zero=zero))
      ctx.prove(len(out) == n, "impulse-duration", "len=%d n=%d" % (len(out), n))
      for i, v in enumerate(out):
        ctx.prove(ctx.eq(v, one if i == 0 else zero), "impulse-shape", "i=%d" % i)
    elif fn == "white_noise":
      low = ctx.real("low"); high = ctx.real("high"); ctx.assume(low <= high)
      calls = []
      class R:
        @staticmethod
        def uniform(a, b):
          calls.append((a, b))
          if ctx.mode == "concrete":
            import random; return random.uniform(float(a), float(b))
          r = ctx.fresh_real("u"); ctx._add(z3.And((r - a)._sgn() >= 0, (b - r)._sgn() >= 0))
          return r
      with patched(ls, random=R):
        out = list(ls.white_noise(dur, low=low, high=high))
      ctx.prove(len(out) == n, "noise-duration", "len=%d n=%d" % (len(out), n))
      for v in out:
        ctx.prove(And(ctx.le(low, v), ctx.le(v, high)), "uniform-noise-within-[low,high]")
      ctx.prove(all(bool(ctx.eq(a, low)) and bool(ctx.eq(b, high)) for a, b in calls), "noise-uses-the-given-limits")


def h_endless(ctx, cfg):
  ls = _synth()
  INF = float("inf")
  for fn in ("ones", "zeros", "impulse", "white_noise"):
    for dur in (None, INF):
      s = getattr(ls, fn)(dur) if dur is not None else getattr(ls, fn)()
      out = s.take(7)
      ctx.prove(len(out) == 7, fn + "-endless-without-duration")
  ctx.prove(list(ls.ones(-3)) == [] and list(ls.impulse(0.25)) == [], "tiny-or-negative-duration-is-empty")


def h_adsr(ctx, cfg):
  ls = _synth()
  a = ctx.real("a", 0, cfg["D"]); d = ctx.real("d", 0, cfg["D"]); r = ctx.real("r", 0, cfg["D"])
  s = ctx.real("s")
  la, ld, lr = _nsamples(ctx, a), _nsamples(ctx, d), _nsamples(ctx, r)
  if cfg["fn"] == "adsr":
    dur = ctx.real("dur", 0, cfg["D"] * 3 + 2)
    total = _nsamples(ctx, dur)
    out = list(ls.adsr(dur, a, d, s, r))
    lsus = total - la - ld - lr
    want_len = la + ld + max(lsus, 0) + lr
    ctx.prove(len(out) == want_len, "adsr-duration", "len=%d want=%d" % (len(out), want_len))
    if lsus >= 0:
      ctx.prove(len(out) == total, "adsr-total-duration-is-int(dur+.5)")
  else:
    out = []
    it = iter(ls.attack(a, d, s))
    for _ in range(la + ld + 2): out.append(next(it))
    lsus = 2; lr = 0
  i = 0
  for k in range(la):
    ctx.prove(ctx.eq(out[i] * a, k), "attack-segment-is-k/a", "k=%d" % k); i += 1
  for k in range(ld):
    ctx.prove(ctx.eq((out[i] - 1) * d, k * (s - 1)), "decay-segment-is-1+k*(s-1)/d", "k=%d" % k); i += 1
  for k in range(max(lsus, 0)):
    ctx.prove(ctx.eq(out[i], s), "sustain-segment-is-s", "k=%d" % k); i += 1
  for k in range(lr):
    if i < len(out):
      ctx.prove(ctx.eq((out[i] - s) * r, -k * s), "release-segment-is-s-k*s/r", "k=%d" % k); i += 1


def _mc_ref(ctx, starts, mods, steps, n):
  """y_n = (start_n + sum_{i<n} step_i) reduced into [0, m)"""
  acc = 0
  out = []
  for k in range(n):
    out.append((starts[k] + acc, mods[k]))
    acc = acc + steps[k]
  return out


def h_modulo_counter(ctx, cfg):
  ls = _synth()
  from audiolazy import Stream
  n = cfg["n"]
  m = Fraction(cfg["modulo"])
  kinds = cfg["kinds"]          # (start, modulo, step) each "num" or "stream"
  zero_step = cfg.get("zero_step", False)
  if kinds[0] == "num":
    st = ctx.real("start", -8, 8); starts = [st] * n; a_start = st
  else:
    starts = ctx.reals("p", n, lo=-8, hi=8); a_start = Stream(list(starts) + [0])
  if kinds[2] == "num":
    if zero_step: sp = 0
    else:
      sp = ctx.real("step", -3, 3)
      ctx.assume(Or(sp >= Fraction(1, 4), sp <= Fraction(-1, 4)))
    steps = [sp] * n; a_step = sp
  else:
    steps = ctx.reals("s", n, lo=-3, hi=3); a_step = Stream(list(steps) + [0])
  mods = [m] * n
  mval = Sym.const(m) if ctx.mode == "sym" else m
  a_mod = mval if kinds[1] == "num" else Stream(mval)
  gen = ls.modulo_counter(a_start, a_mod, a_step)
  out = gen.take(n)
  ctx.prove(len(out) == n, "counter-length", "len=%d" % len(out))
  ref = _mc_ref(ctx, starts, mods, steps, n)
  for k in range(min(n, len(out))):
    y = out[k]; total, mk = ref[k]
    obs = y
    if ctx.mode != "sym" and isinstance(y, float) and abs(y - float(mk)) < 1e-7:
      obs = 0.0       # native float run: a value one rounding error below the modulo is the representative of 0
    ctx.observe("c", obs)
    ctx.prove(And(ctx.le(0, y), y < mk), "counter-in-[0,modulo)", "k=%d" % k)
    ctx.prove(ctx.is_int((total - y) / mk), "counter-is-running-sum-mod-modulo", "k=%d" % k)


def h_table(ctx, cfg):
  ls = _synth()
  L = cfg["L"]; n = cfg["n"]
  tbl = ctx.reals("t", L)
  cycles = cfg.get("cycles", 1)
  T = ls.TableLookup(list(tbl), cycles=cycles)
  def interp(idx):
    i = int(math.floor(idx)); fr = idx - i
    return tbl[i % L] * (1 - fr) + tbl[(i + 1) % L] * fr
  if cfg["what"] == "getitem":
    idx = ctx.real("idx", 0, 2 * L)
    ctx.prove(ctx.eq(T[idx], interp(idx)), "table[idx]-is-cyclic-linear-interpolation")
    return
  if cfg["what"] == "ops":
    c = ctx.real("c")
    U = ls.TableLookup(list(ctx.reals("u", L)), cycles=cycles)
    for name, res, ref in (("add", T + U, [a + b for a, b in zip(tbl, U.table)]), ("mulc", T * 2, [a * 2 for a in tbl]),
                           ("rsub", 1 - T, [1 - a for a in tbl]), ("neg", -T, [-a for a in tbl])):
      ctx.prove(len(res) == L and res.cycles == cycles and And(*[ctx.eq(x, y) for x, y in zip(res.table, ref)]),
                "table-operators-act-on-entries", name)
    return
  # frequency and phase are expressed in table steps (g, h): freq = g / cyc_len, phase = h / cyc_len, where cyc_len
  # is the float constant the code itself computes; this keeps the positions k*g + h free of 16-digit rationals
  cyc_len = frac_of_float(float(L) / (cycles * 2 * math.pi))
  g = ctx.real("g", 0, L + 1); h = ctx.real("h", 0, L) if cfg.get("phase") else 0
  ctx.assume(Or(g == 0, g >= Fraction(1, 8)))          # keeps the batched path's int(modulo/step) within the split cap
  freq = g / cyc_len; phase = h / cyc_len
  out = (T(freq, phase) if cfg.get("phase") else T(freq)).take(n)
  ctx.prove(len(out) == n, "oscillator-is-endless")
  for k in range(len(out)):
    pos = h + k * g                                     # un-reduced table position
    q = math.floor(pos / L)
    idx = pos - q * L
    ctx.observe("o", out[k])
    ctx.prove(ctx.eq(out[k], interp(idx)), "oscillator-is-cyclic-linear-interpolation-of-its-table", "k=%d" % k)


def h_sinusoid(ctx, cfg):
  ls = _synth()
  n = cfg["n"]
  freq = ctx.real("freq", Fraction(1, 4), 3); phase = ctx.real("phase", -4, 4)
  args = []
  def sin_stub(x):
    args.append(x)
    if isinstance(x, Sym):
      f = z3.Function("sin", z3.RealSort(), z3.RealSort())
      return Sym(f(x.term()))
    return math.sin(x)
  with patched(ls, sin=sin_stub):
    out = ls.sinusoid(freq, phase).take(n)
  two_pi = frac_of_float(2 * math.pi)
  ctx.prove(len(out) == n and len(args) == n, "sinusoid-one-sin-per-sample")
  for k in range(len(args)):
    total = phase + k * freq
    ctx.prove(And(ctx.le(0, args[k]), args[k] < two_pi, ctx.is_int((total - args[k]) / two_pi)),
              "sinusoid-argument-is-phase+n*freq-mod-2pi", "k=%d" % k)


def h_karplus(ctx, cfg):
  ls = _synth()
  delay = cfg["delay"]; tau = cfg["tau"]; n = cfg["n"]
  freq = 2 * math.pi / delay
  d_eff = 2 * math.pi / freq                     # the (float) delay the code computes
  alpha_f = math.e ** (-d_eff / tau)             # comb.tau's feedback gain, a float
  if float(d_eff).is_integer():
    k = int(d_eff); taps = {k: frac_of_float(alpha_f)}
  else:
    k = int(d_eff); wr = d_eff - k; wl = 1. - wr  # linearize()'s float weights; products are rounded doubles
    taps = {k: frac_of_float(alpha_f * wl), k + 1: frac_of_float(alpha_f * wr)}
  msize = max(taps)
  mem = ctx.reals("m", msize)
  out = ls.karplus_strong(freq, tau=tau, memory=list(mem)).take(n)
  y = {}
  for j in range(1, msize + 1): y[-j] = mem[j - 1]
  for i in range(n):
    v = 0
    for d, c in taps.items(): v = v + c * y[i - d]
    y[i] = v
    ctx.observe("ks", out[i])
    ctx.prove(ctx.eq(out[i], v), "karplus-strong-is-linearised-feedback-comb-on-its-memory", "i=%d" % i)


def _lagrange(points, t):
  acc = 0
  for j, (xj, yj) in enumerate(points):
    term = yj
    for k, (xk, _) in enumerate(points):
      if k != j: term = term * (t - xk) / (xj - xk)
    acc = acc + term
  return acc


def h_resample(ctx, cfg):
  from audiolazy import resample
  order = cfg["order"]; N = cfg["N"]
  x = ctx.reals("x", N); zero = ctx.real("zero") if cfg.get("symzero") else 0
  steps = None
  if cfg["step"] == "tv":
    # time-varying step: old (or new) is a Stream, one value per output sample; output m sits at the sum of the first
    # m steps; steps above 1 shift the window more than once
    from audiolazy import Stream
    steps = ctx.reals("s", cfg["M"], lo=Fraction(1, 4), hi=Fraction(5, 2))
    if cfg.get("via") == "new":
      for v in steps: ctx.assume(v > 0)
      old, new = 1, Stream([1 / v for v in steps])
    else:
      old, new = Stream(list(steps)), 1
    step = None
  elif cfg["step"] == "sym":
    step = ctx.real("step", Fraction(1, 4), 2)
    old, new = step, 1
  else:
    old, new = cfg["step"]; step = Fraction(old, new)
    if ctx.mode == "sym": old = Sym.const(old)
  out = list(resample(list(x), old=old, new=new, order=order, zero=zero))
  X = lambda i: (x[i] if 0 <= i < N else zero)
  # bookkeeping of the documented algorithm: a window of order+1 samples whose centre follows the position
  thr = Fraction(order + 1, 2)
  consumed = int(thr + Fraction(1, 2))                  # rint(threshold): halves away from zero
  idx = Fraction(int(thr))
  m = 0
  want = []
  pos = 0
  alive = consumed <= N                                  # an input shorter than the first window gives no output
  while alive and m < 40:
    a = consumed - 1 - order                            # absolute index of the window's first sample
    want.append((a, pos))
    if steps is not None:
      if m >= len(steps): break                         # the step stream ended: so does the output
      step = steps[m]
    pos = pos + step
    idx = idx + step
    while bool(idx > thr):
      if consumed >= N: alive = False; break
      consumed += 1; idx = idx - 1
    m += 1
  ctx.prove(len(out) == len(want), "resample-ends-when-its-input-does", "len(out)=%d expected=%d" % (len(out), len(want)))
  for m, (a, pos) in enumerate(want[:len(out)]):
    pts = [(a + j, X(a + j)) for j in range(order + 1)]
    ctx.observe("rs", out[m])
    ctx.prove(ctx.eq(out[m], _lagrange(pts, pos)), "resample-is-order-p-lagrange-interpolation-at-m*old/new", "m=%d" % m)
    # the window is a neighbourhood of the position (never further than the window itself)
    ctx.prove(And(ctx.le(a, pos), ctx.le(pos, a + order)) if order else ctx.le(abs(pos - a), Fraction(1, 2)),
              "resample-window-contains-the-position", "m=%d a=%d" % (m, a))
    if isinstance(pos, (int, Fraction)) and Fraction(pos).denominator == 1 and 0 <= pos < N:
      ctx.prove(ctx.eq(out[m], x[int(pos)]), "integer-positions-reproduce-the-input", "m=%d" % m)


def tasks(tier, seed):
  big = tier == "thorough"
  D = 6 if big else 4
  T = []
  for fn, fin in (("line", False), ("line", True), ("fadein", False), ("fadeout", False)):
    T.append(("h_line", {"fn": fn, "finish": fin, "D": D}))
  for fn in ("ones", "zeros", "impulse", "white_noise"):
    T.append(("h_const_gens", {"fn": fn, "D": D}))
  T.append(("h_endless", {}))
  T.append(("h_adsr", {"fn": "adsr", "D": 2 if not big else 3}))
  T.append(("h_attack" if False else "h_adsr", {"fn": "attack", "D": 2 if not big else 3}))
  n = 10 if big else 6
  for modulo in ("1", "5/2", "7"):
    for ks in ("num", "stream"):
      for km in ("num", "stream"):
        for kp in ("num", "stream"):
          T.append(("h_modulo_counter", {"n": n if (ks, kp) != ("stream", "stream") else min(n, 5), "modulo": modulo,
                                         "kinds": (ks, km, kp)}))
          if kp == "num":
            T.append(("h_modulo_counter", {"n": 4, "modulo": modulo, "kinds": (ks, km, kp), "zero_step": True}))
  for L in ((1, 2, 4) if not big else (1, 2, 3, 5)):
    T.append(("h_table", {"L": L, "n": 5 if not big else 8, "what": "call"}))
    if L <= 2 or big:
      T.append(("h_table", {"L": L, "n": 2 if not big else 3, "what": "call", "phase": True, "cycles": 2 if L % 2 == 0 else 1}))
    T.append(("h_table", {"L": L, "n": 0, "what": "getitem"}))
    T.append(("h_table", {"L": L, "n": 0, "what": "ops"}))
  T.append(("h_sinusoid", {"n": 6 if not big else 10}))
  for delay, tau in ((4.25, 8.0), (3.0, 5.0), (2.5, 100.0), (5.75, 2e4)):
    T.append(("h_karplus", {"delay": delay, "tau": tau, "n": 8 if not big else 14}))
  for order in (0, 1, 2, 3):
    for N in ((0, 1, 3, 5) if not big else (0, 1, 2, 4, 7)):
      for step in ("sym", (1, 1), (1, 2), (3, 2), (2, 1), (1, 3)):
        if step == "sym" and N > 4: continue
        T.append(("h_resample", {"order": order, "N": N, "step": step, "symzero": order == 2}))
    for N, M in ((2, 2), (3, 3), (4, 3), (5, 4)) if not big else ((2, 2), (3, 3), (4, 3), (5, 4), (6, 4), (4, 6), (7, 5)):
      T.append(("h_resample", {"order": order, "N": N, "step": "tv", "M": M, "via": "old" if order % 2 == 0 else "new"}))
  return T
