"""C16 - the mixer starts each event at its cumulative time and sums what plays."""
from fractions import Fraction
from symrun.nums import And, Or, Not, Sym

META = {
  "functions": ["Streamix.__init__ (data_generator)", "Streamix.add", "ControlStream.__init__ (data_generator) / value attribute"],
  "bounds": {"quick": "<=3 events with symbolic real deltas in [0, 3] (fractional allowed), event data of length 0..2 with symbolic "
                      "items, symbolic zero value, additions before playback or interleaved with consumption at a case-split "
                      "point, keep on/off, <=9 outputs observed; ControlStream: <=4 assignments interleaved with <=5 reads",
             "thorough": "<=4 events, deltas in [0, 4], data length 0..3, <=14 outputs"},
  "outside": "events that are themselves endless with keep (prefix only), more events than the bound, IEEE rounding of the "
             "0.5 / 1.0 float constants (exact here)",
  "stubs": [],
  "assumptions": ["deltas are exact reals; at an exact tie (cumulative time = k + 1/2) either neighbouring sample is accepted "
                  "(the statement only says 'nearest')",
                  "an event added during playback starts no earlier than the sample at which it was added"],
}
CAPS = {"quick": {"query_s": 20, "max_paths": 60000, "witness_every": 3},
        "thorough": {"query_s": 60, "max_paths": 600000, "witness_every": 9}}


def _round_options(ctx, t):
  """-> list of admissible integer start samples for cumulative time t >= 0 (nearest; both at a tie)."""
  f = int(__import__("math").floor(t))            # concretised by the solver on symbolic t
  r = t - f
  if bool(r < Fraction(1, 2)): return [f]
  if bool(r > Fraction(1, 2)): return [f + 1]
  return [f, f + 1]


def h_mix(ctx, cfg):
  from audiolazy import Streamix
  nev = cfg["events"]; D = cfg["D"]
  keep = cfg["keep"]
  zero = ctx.real("zero") if cfg.get("symzero", True) else 0
  smix = Streamix(keep=keep, zero=zero)
  deltas, datas = [], []
  for i in range(nev):
    d = ctx.real("d%d" % i, 0, D)
    if cfg.get("intdelta"):
      d = ctx.split("di%d" % i, 0, D)
    L = ctx.split("len%d" % i, 0, cfg["L"])
    data = ctx.reals("v%d_" % i, L)
    deltas.append(d); datas.append(data)
  # when is each event added?  before playback (at = 0) or after `at` outputs were consumed
  ats = [0] * nev
  if cfg.get("interleave"):
    for i in range(nev):
      ats[i] = ctx.split("at%d" % i, ats[i - 1] if i else 0, cfg["A"])
  it = iter(smix)
  out = []
  ended = False
  def pull(upto):
    nonlocal ended
    while len(out) < upto and not ended:
      try: out.append(next(it))
      except StopIteration: ended = True
  kinds = cfg.get("kinds") or ["list"] * nev
  for i in range(nev):
    pull(ats[i])
    if ended and not keep: ctx.exclude("mixer already finished before this add")
    src = {"list": lambda: list(datas[i]), "gen": lambda: (v for v in datas[i]), "tuple": lambda: tuple(datas[i])}[kinds[i]]()
    smix.add(deltas[i], src)
  NOUT = cfg["NOUT"]
  pull(NOUT)
  # ---- independent model ---------------------------------------------------------------------------------
  # cumulative times; an event added late (after `at` outputs) cannot start before sample `at`:
  # the mixer's clock is the sample count, the event queue is FIFO
  starts = []
  cum = 0
  prev_start = 0
  for i in range(nev):
    cum = cum + deltas[i]
    opts = _round_options(ctx, cum) if isinstance(cum, Sym) or True else None
    opts = [max(o, ats[i], prev_start) for o in opts]        # never earlier than its own add / than the previous event
    starts.append(opts)
    prev_start = min(opts)
  # try the admissible start combinations (at most 2 per tie); the real output must match one of them
  import itertools
  combos = list(itertools.product(*starts))
  ok_any = []
  for combo in combos:
    if any(combo[i] < combo[i - 1] for i in range(1, nev)): continue
    end = max([combo[i] + len(datas[i]) for i in range(nev)] + [0]) if nev else 0
    # without keep the output ends exactly when nothing plays or is pending
    want_len = NOUT if keep else min(end, NOUT)
    if not keep and end >= NOUT and ended: pass
    conds = [len(out) == want_len]
    for n in range(min(len(out), want_len)):
      acc = zero
      for i in range(nev):
        j = n - combo[i]
        if 0 <= j < len(datas[i]): acc = acc + datas[i][j]
      conds.append(ctx.eq(out[n], acc))
    ok_any.append(And(*conds))
  for o in out: ctx.observe("y", o)
  ctx.prove(Or(*ok_any) if ok_any else False, "output-is-zero-plus-items-due-at-nearest-cumulative-start",
            "deltas=%r ats=%r lens=%r len(out)=%d ended=%s" % (deltas, ats, [len(d) for d in datas], len(out), ended))
  if not keep and nev == 0:
    ctx.prove(len(out) == 0, "empty-mixer-ends-at-once")


def h_negative_delta(ctx, cfg):
  from audiolazy import Streamix
  smix = Streamix()
  d = ctx.real("d", -3, 3)
  try:
    smix.add(d, [1, 2])
    raised = False
  except ValueError:
    raised = True
  ctx.prove(Or(And(d < 0, raised), And(d >= 0, not raised)), "negative-delta-rejected", "raised=%s" % raised)
  if raised:
    ctx.prove(len(smix._not_playing) == 0, "rejected-event-not-queued")


def h_no_drift(ctx, cfg):
  """Many equal fractional deltas: the i-th event starts at round(i*d) - compared with the closed form."""
  from audiolazy import Streamix
  n = cfg["n"]
  p = cfg["p"]; q = cfg["q"]                # delta = p/q exactly (concrete rational), markers are symbolic
  d = Fraction(p, q)
  marks = ctx.reals("m", n)
  smix = Streamix(zero=0)
  for i in range(n):
    smix.add(Sym.const(d) if ctx.mode == "sym" else d, [marks[i]])
  out = list(smix)
  cum = Fraction(0)
  want = {}
  ties = False
  for i in range(n):
    cum += d
    f = cum.numerator // cum.denominator
    r = cum - f
    if r == Fraction(1, 2): ties = True
    s = f if r < Fraction(1, 2) else f + 1
    want.setdefault(s, []).append(i)
  if ties: ctx.exclude("tie in the closed form")
  L = max(want) + 1
  ctx.prove(len(out) == L, "no-drift:length", "len=%d want=%d" % (len(out), L))
  for t in range(min(L, len(out))):
    acc = 0
    for i in want.get(t, []): acc = acc + marks[i]
    ctx.prove(ctx.eq(out[t], acc), "no-drift:event-i-starts-at-round(i*delta)", "sample %d" % t)


def h_control(ctx, cfg):
  """A ControlStream yields, at every read, the value most recently assigned."""
  from audiolazy import ControlStream, Stream
  v0 = ctx.real("v0")
  cs = ControlStream(v0)
  cur = v0
  it = iter(cs if cfg["how"] == "plain" else (cs + 0))
  steps = cfg["steps"]
  for t in range(steps):
    kind = ctx.choice("k%d" % t, ["read", "assign", "read2"])
    if kind == "assign":
      cur = ctx.real("a%d" % t)
      cs.value = cur
    else:
      for _ in range(2 if kind == "read2" else 1):
        got = next(it)
        ctx.observe("cs", got)
        ctx.prove(ctx.eq(got, cur), "control-stream-yields-latest-assignment", "step %d" % t)
  ctx.prove(ctx.eq(cs.value, cur), "value-attribute")


def tasks(tier, seed):
  big = tier == "thorough"
  T = []
  D, L = (4, 3) if big else (3, 2)
  for keep in (False, True):
    for nev in ((0, 1, 2, 3, 4) if big else (0, 1, 2, 3)):
      NOUT = (3 * nev + 2) if nev else 2
      if nev >= 3: cfgL = 2 if (big and nev == 3) else 1     # 4 events with data length 2: > 60000 paths, over the task cap
      else: cfgL = L
      T.append(("h_mix", {"events": nev, "D": D if nev < 3 else 2, "L": cfgL, "keep": keep, "NOUT": min(NOUT, 14 if big else 9)}))
      if nev in (1, 2) or (big and nev == 3):
        T.append(("h_mix", {"events": nev, "D": 2, "L": 1 if nev > 1 else 2, "keep": keep, "NOUT": 7, "interleave": True,
                            "A": (3 if nev == 2 else 2) if nev > 1 else 4, "kinds": ["gen", "tuple", "list"][:nev]}))
    T.append(("h_mix", {"events": 3, "D": 3, "L": 2, "keep": keep, "NOUT": 9, "intdelta": True, "symzero": False}))
  T.append(("h_negative_delta", {}))
  for p, q in ((1, 3), (2, 3), (3, 4), (5, 4), (1, 7), (7, 5), (1, 10)) + (((3, 10), (9, 7), (11, 10)) if big else ()):
    T.append(("h_no_drift", {"n": 12 if not big else 25, "p": p, "q": q}))
  for how in ("plain", "expr"):
    T.append(("h_control", {"how": how, "steps": 5 if not big else 7}))
  return T
