"""C08 - blocks are the hop-spaced windows of the input, padded only at the end.

Two independent encodings of the same contract:
  * symrun: uninterpreted items (heterogeneous data, any pad value); input length, size and hop are symbolic
    integers split by the solver;
  * CrossHair (props/ch_blocks.py): symbolic-length List[int] through the same real functions.
"""
import json
import os
import re
import subprocess
import sys
import time

from symrun.nums import And, Or, Not, same

META = {
  "functions": ["lazy_misc.blocks", "lazy_misc.zero_pad", "Stream.blocks"],
  "bounds": {"quick": "symrun: input length 0..7, size 1..4, hop 1..6 (incl. hop None = size), any pad value, "
                      "uninterpreted items; CrossHair: len<=5, size<=4, hop<=4, pad<=3, 300 s (wall) per condition",
             "thorough": "symrun: length 0..10, size 1..5, hop 1..8; CrossHair: len<=7, size<=4, hop<=6, pad<=4, 900 s (wall) per condition"},
  "outside": "size=None (deque without maxlen), non-integer sizes/hops, lengths above the bound",
  "stubs": [],
  "assumptions": ["items are opaque objects: the block content is decided as identity of item terms (EUF)",
                  "each yielded deque is snapshotted at yield time (the deque object is reused by design)"],
}
CAPS = {"quick": {"query_s": 20, "max_paths": 20000}, "thorough": {"query_s": 60, "max_paths": 200000}}


def ref_blocks(seq, size, hop, pad):
  out = []
  k = 0
  n = len(seq)
  while k * hop + size <= n:
    out.append(list(seq[k * hop:k * hop + size]))
    k += 1
  rem = n - k * hop            # real items the would-be final block holds
  if rem > max(size - hop, 0):
    out.append(list(seq[k * hop:]) + [pad] * (size - rem))
  return out


def _eqblocks(ctx, got, want, clause):
  ctx.prove(len(got) == len(want), clause + ":number-of-blocks", "got %d blocks, expected %d" % (len(got), len(want)))
  for i, (g, w) in enumerate(zip(got, want)):
    ctx.prove(len(g) == len(w), clause + ":block-size", "block %d has %d items" % (i, len(g)))
    ctx.prove(And(*[same(a, b) for a, b in zip(g, w)]) if g else True, clause, "block %d" % i)


def h_blocks(ctx, cfg):
  from audiolazy import Stream
  from audiolazy.lazy_misc import blocks
  L = ctx.split("L", 0, cfg["L"])
  size = ctx.split("size", 1, cfg["S"])
  n = L.__index__()
  items = ctx.elems("e", n)
  pad = {"elem": lambda: ctx.elem("pad"), "None": lambda: None, "zero": lambda: 0, "str": lambda: "pad",
         "false": lambda: False, "emptylist": lambda: []}[cfg.get("pad", "elem")]()
  if cfg.get("hetero") and n >= 2:
    items = list(items); items[0] = None; items[-1] = ("tuple", 1.5)       # heterogeneous data incl. None
  via = cfg["via"]
  if cfg["hop"] == "none":
    hop, hop_eff = None, size
  else:
    hop = ctx.split("hop", 1, cfg["H"]); hop_eff = hop
  kw = {} if hop is None else {"hop": hop}
  if via == "func":
    gen = blocks(iter(items), size=size, padval=pad, **kw)
  elif via == "positional":
    gen = blocks(list(items), size, hop, pad) if hop is not None else blocks(list(items), size, None, pad)
  else:
    gen = Stream(items).blocks(size=size, padval=pad, **kw)
  got = [list(b) for b in gen]
  want = ref_blocks(items, size.__index__(), hop_eff.__index__(), pad)
  for b in got: ctx.observe("nblk", len(b))
  _eqblocks(ctx, got, want, "block-k-is-items-k*hop..k*hop+size-1")


def h_blocks_lazy_snapshot(ctx, cfg):
  """Block k holds the right items *at the moment it is produced* (deque reused afterwards)."""
  from audiolazy.lazy_misc import blocks
  L = ctx.split("L", 0, cfg["L"]); size = ctx.split("size", 1, cfg["S"]); hop = ctx.split("hop", 1, cfg["H"])
  n = L.__index__()
  items = ctx.elems("e", n); pad = ctx.elem("pad")
  want = ref_blocks(items, size.__index__(), hop.__index__(), pad)
  pulled = [0]
  def src():
    for it in items:
      pulled[0] += 1
      yield it
  got = []
  for k, b in enumerate(blocks(src(), size, hop, pad)):
    got.append(list(b))
    if k < len(want) and k * int(hop) + int(size) <= n:
      ctx.prove(pulled[0] == k * int(hop) + int(size), "block-produced-as-soon-as-complete",
                "block %d after %d items" % (k, pulled[0]))
  _eqblocks(ctx, got, want, "snapshot-at-yield")


def h_blocks_live_input(ctx, cfg):
  """The input is read as it is *at the moment each block is produced*: a list (or deque) that grows after the first
  block was taken is blocked like any live iterable - the later blocks and the padded tail follow the grown input."""
  import collections
  from audiolazy.lazy_misc import blocks
  L = ctx.split("L", 1, cfg["L"]); size = ctx.split("size", 1, cfg["S"]); hop = ctx.split("hop", 1, cfg["H"])
  extra_n = ctx.split("extra", 1, cfg["E"])
  n = L.__index__()
  if n < int(size): ctx.exclude("no complete first block: the input is exhausted before anything can be appended")
  items = ctx.elems("e", n); extra = ctx.elems("x", extra_n.__index__()); pad = ctx.elem("pad")
  data = list(items) if cfg["kind"] == "list" else collections.deque(items)
  gen = blocks(data, size, hop, pad)
  got = [list(next(gen))]
  data.extend(extra)                       # the source grows while its blocks are being consumed
  for b in gen: got.append(list(b))
  want = ref_blocks(list(items) + list(extra), size.__index__(), hop.__index__(), pad)
  _eqblocks(ctx, got, want, "block-k-is-items-k*hop..k*hop+size-1-at-the-moment-it-is-produced")


def h_zero_pad(ctx, cfg):
  from audiolazy.lazy_misc import zero_pad
  L = ctx.split("L", 0, cfg["L"]); left = ctx.int("left", 0, cfg["P"]); right = ctx.int("right", 0, cfg["P"])
  n = L.__index__()
  items = ctx.elems("e", n); z = ctx.elem("zero")
  kw = {}
  if cfg["kw"]:
    got = list(zero_pad(iter(items), left=left, right=right, zero=z))
  else:
    got = list(zero_pad(list(items), left, right, z))
  want = [z] * left.__index__() + list(items) + [z] * right.__index__()
  ctx.observe("len", len(got))
  ctx.prove(len(got) == len(want), "zero_pad:length", "got %d want %d" % (len(got), len(want)))
  ctx.prove(And(*[same(a, b) for a, b in zip(got, want)]) if got else True, "zero_pad:left-seq-right")


def tasks(tier, seed):
  big = tier == "thorough"
  L, S, H = (10, 5, 8) if big else (7, 4, 6)
  T = []
  for via in ("func", "stream", "positional"):
    T.append(("h_blocks", {"via": via, "hop": "int", "L": L, "S": S, "H": H}))
    if via != "positional":
      T.append(("h_blocks", {"via": via, "hop": "none", "L": L, "S": S, "H": H}))
  for pad in ("None", "zero", "str", "false", "emptylist"):
    for via in ("func", "stream", "positional"):
      T.append(("h_blocks", {"via": via, "hop": "int", "L": L - 2, "S": S - 1, "H": H - 2, "pad": pad, "hetero": pad == "None"}))
  T.append(("h_blocks_lazy_snapshot", {"L": L, "S": S, "H": H}))
  T.append(("h_blocks_live_input", {"kind": "list", "L": 5 if not big else 7, "S": 3, "H": 5, "E": 3 if not big else 4}))
  for kw in (True, False):
    T.append(("h_zero_pad", {"L": 5 if big else 4, "P": 4 if big else 3, "kw": kw}))
  return T


# ---------------------------------------------------------------------------------------------
# CrossHair leg
# ---------------------------------------------------------------------------------------------
def extra(tier, repo):
  """Runs `crosshair check` on props/ch_blocks.py; -> dict(ok, violations, inconclusive, coverage)"""
  here = os.path.dirname(os.path.abspath(__file__))
  verif = os.path.dirname(here)
  py = os.path.join(verif, ".venv", "bin", "python")
  # CrossHair's budgets are wall-clock: the quick bounds are sized to need ~10-15 s per condition on an idle core and
  # get 20x that, so that a loaded machine does not turn "Confirmed" into "Not confirmed" (measured: len<=6, hop<=5,
  # pad<=4 needs 50-75 s per condition, which was too close to the old 60 s cap)
  tmo = 900 if tier == "thorough" else 300
  big = tier == "thorough"
  env = dict(os.environ, PYTHONPATH=repo + os.pathsep + verif, PYTHONDONTWRITEBYTECODE="1", PYTHONWARNINGS="ignore",
             CH_MAXLEN="7" if big else "5", CH_MAXHOP="6" if big else "4", CH_MAXPAD="4" if big else "3")
  target = os.path.join(here, "ch_blocks.py")
  src = open(target).read()
  fns = re.findall(r"^def (check_\w+)\(", src, re.M)
  procs = {}
  t0 = time.time()
  for fn in fns:
    line = src[:src.index("def %s(" % fn)].count("\n") + 1
    cmd = [py, "-W", "ignore", "-m", "crosshair", "check", "--report_all", "--per_condition_timeout", str(tmo),
           "--per_path_timeout", str(max(10, tmo // 4)), "%s:%d" % (target, line)]
    procs[fn] = subprocess.Popen(cmd, env=env, stdout=subprocess.PIPE, stderr=subprocess.STDOUT, text=True, cwd=verif)
  res = {"ok": True, "violations": [], "inconclusive": [], "results": {}}
  for fn, p in procs.items():
    try:
      out, _ = p.communicate(timeout=tmo * 3 + 120)
    except subprocess.TimeoutExpired:
      p.kill(); out = "TIMEOUT"
    out = out.strip()
    twin = fn.endswith("_twin")
    confirmed = "Confirmed over all paths" in out
    refuted = ("error:" in out and ("false when calling" in out or "raises" in out.lower() or "Exception" in out))
    res["results"][fn] = out[-400:]
    if twin:
      # reachability witness: the negated postcondition MUST be refuted
      if not refuted:
        res["inconclusive"].append({"clause": fn, "why": "reachability twin was not refuted: " + out[-300:]})
    else:
      if refuted:
        call = _call_of(out)
        v = {"harness": "crosshair:" + fn, "cfg": {"call": call}, "clause": fn,
             "detail": out[-600:], "model": {"call": call or ""}, "what": out[-600:]}
        if call and replay_extra(v):
          res["violations"].append(v)       # reproduced natively on the real code
        else:
          res["inconclusive"].append({"clause": fn, "why": "CrossHair counterexample did not reproduce natively: " + out[-300:]})
      elif not confirmed:
        res["inconclusive"].append({"clause": fn, "why": "CrossHair did not confirm over all paths: " + out[-300:]})
  res["coverage"] = {"crosshair_conditions": len(fns), "crosshair_wall_s": round(time.time() - t0, 1),
                     "crosshair_verdicts": {k: ("Confirmed over all paths" if "Confirmed over all paths" in v
                                                else v[-120:]) for k, v in res["results"].items()}}
  return res


def _call_of(report):
  m = re.search(r"when calling (check_\w+\(.*\))(?: \(which|$)", report, re.S)
  return m.group(1).strip() if m else None


def replay_extra(rp):
  """Re-runs a CrossHair counterexample call natively; True = the contract really fails."""
  call = (rp.get("cfg") or {}).get("call") or (rp.get("model") or {}).get("call")
  if not call: return False
  import importlib
  os.environ.setdefault("CH_MAXLEN", "99"); os.environ.setdefault("CH_MAXHOP", "99")
  import crosshair
  mod = importlib.import_module("props.ch_blocks")
  mod.realize = lambda x: x
  try:
    r = eval(call, dict(vars(mod)))
  except Exception as e:
    return True                      # the real code raised on a valid input
  return r is False if not call.startswith(("check_blocks_twin", "check_zero_pad_twin")) else False
