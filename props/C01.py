"""C01 - Stream operators and broadcast functions act element by element."""
import collections
import itertools as it
import math
import operator
import random

from symrun.nums import And, Or, Not, same, SymElem, Sym, SymBool

INF = float("inf")

META = {
  "functions": ["StreamMeta.__binary__/__rbinary__/__unary__ (every dunder installed by AbstractOperatorOverloaderMeta.__new__ "
                "for OpMethod.get('all'))", "OpMethod._initialize table", "Stream.__init__ (iterable/scalar/periodic)",
                "Stream.__getattr__/__call__/__abs__", "lazy_misc.elementwise", "lazy_math wrappers (all names)",
                "lazy_math.log/log1p/dB10/dB20/sign/absolute/factorial", "lazy_midi.midi2freq/freq2midi/str2midi/midi2str/..."],
  "bounds": {"quick": "operand lengths 0..4 (case-split symbolic integers), all operator methods of the running table x operand "
                      "kinds {Stream, list, tuple, generator, range-like iterator, scalar, periodic Stream}; 400 depth-2 operator "
                      "pairs and 150 seeded depth-3 shapes; every operator on concrete bool/int/float/complex/Fraction elements; "
                      "broadcast functions on scalar/list/tuple/deque/set/frozenset/Stream/generator/map/filter inputs",
             "thorough": "lengths 0..5, all ordered operator pairs at depth 2 and 1500 seeded depth-3 shapes"},
  "outside": "numpy arrays/matrices (numpy absent), ternary pow and divmod (not overloaded), element types whose "
             "operators have side effects; numeric values of the C math functions themselves (only routing/type "
             "preservation is claimed)",
  "stubs": ["element operators are uninterpreted functions over an uninterpreted sort (EUF): a wrong operand order, a wrong "
            "operator or a wrong pairing is a disequality of terms",
            "lazy_math.math replaced by a dispatching proxy (uninterpreted real function on symbolic arguments) for dB10/dB20"],
  "assumptions": ["operators of the element type are pure functions"],
}
CAPS = {"quick": {"query_s": 10, "max_paths": 200000, "witness_every": 3},
        "thorough": {"query_s": 20, "max_paths": 2000000, "witness_every": 11}}

KINDS = ["stream", "list", "tuple", "gen", "iter", "scalar", "periodic"]


def _operand(ctx, tag, kind, N):
  """-> (python object for the expression, model) where model is ('seq', items) | ('rep', item) | ('cyc', items)"""
  from audiolazy import Stream
  if kind == "scalar":
    e = ctx.elem(tag + "k"); return e, ("rep", e)
  if kind == "periodic":
    a, b = ctx.elem(tag + "p0"), ctx.elem(tag + "p1")
    return Stream(a, b), ("cyc", [a, b])
  n = ctx.split(tag + "len", 0, N)
  items = ctx.elems(tag, n)
  obj = {"stream": lambda: Stream(list(items)), "list": lambda: list(items), "tuple": lambda: tuple(items),
         "gen": lambda: (x for x in items), "iter": lambda: iter(list(items))}[kind]()
  return obj, ("seq", items)


def _mlen(m):
  return len(m[1]) if m[0] == "seq" else None


def _mitem(m, i):
  if m[0] == "seq": return m[1][i]
  if m[0] == "rep": return m[1]
  return m[1][i % len(m[1])]


def _apply(fn, *models):
  """Independent list interpreter: elementwise application, shortest iterable operand wins."""
  lens = [_mlen(m) for m in models if _mlen(m) is not None]
  if not lens:
    # endless result: keep symbolic description as a cycle of period lcm (<= 2 here)
    per = max([len(m[1]) for m in models if m[0] == "cyc"] + [1])
    return ("cyc", [fn(*[_mitem(m, i) for m in models]) for i in range(per)])
  n = min(lens)
  return ("seq", [fn(*[_mitem(m, i) for m in models]) for i in range(n)])


def _check_stream(ctx, res, model, clause, detail=""):
  from audiolazy import Stream
  ctx.prove(isinstance(res, Stream), clause + ":result-is-stream", "type=%s" % type(res).__name__)
  if model[0] == "seq":
    got = res.take(len(model[1]) + 2)
    ctx.observe("len", len(got))
    ctx.prove(len(got) == len(model[1]), clause + ":ends-with-shortest-operand",
              "%s got %d items, expected %d" % (detail, len(got), len(model[1])))
    ctx.prove(And(*[same(a, b) for a, b in zip(got, model[1])]) if got else True, clause, detail)
  else:
    got = res.take(5)
    want = [_mitem(model, i) for i in range(5)]
    ctx.prove(len(got) == 5 and And(*[same(a, b) for a, b in zip(got, want)]), clause, detail + " (endless prefix)")


def _table():
  from audiolazy.lazy_core import OpMethod
  return list(OpMethod.get("all"))


SWAP = {"lt": "gt", "gt": "lt", "le": "ge", "ge": "le", "eq": "eq", "ne": "ne"}


def h_binary(ctx, cfg):
  """One operator method, one operand-kind pair."""
  from audiolazy import Stream
  ops = {op.name: op for op in _table()}
  op = ops[cfg["op"]]
  N = cfg["N"]
  s_obj, s_m = _operand(ctx, "a", cfg["self"], N)
  o_obj, o_m = _operand(ctx, "b", cfg["other"], N)
  ctx.prove(isinstance(s_obj, Stream), "self-operand-is-stream")
  fn = getattr(operator, "__%s__" % op.name[op.rev:])
  if op.rev:
    # written as:  other <op> stream
    if isinstance(o_obj, Stream): ctx.exclude("reflected method is never reached with a Stream on the left")
    res = fn(o_obj, s_obj)
    model = _apply(fn, o_m, s_m)
  else:
    res = fn(s_obj, o_obj)
    model = _apply(fn, s_m, o_m)
  _check_stream(ctx, res, model, "element-i-is-op(left_i,right_i)", "op=%s self=%s other=%s" % (op.name, cfg["self"], cfg["other"]))
  # the dunder itself exists on the class with the right name
  ctx.prove(getattr(Stream, op.dname).__name__ == op.dname, "dunder-installed")


def h_shared_operand(ctx, cfg):
  """An endless operand (a constant Stream, a ControlStream knob) feeds several expressions: every expression is its
  own Stream, the operand is not altered by having been used, and a value assigned to the knob afterwards shows in
  every expression built from it."""
  from audiolazy import Stream, ControlStream
  ops = {op.name: op for op in _table()}
  op1, op2 = ops[cfg["op1"]], ops[cfg["op2"]]
  c0, c1, k1, k2 = ctx.elem("c0"), ctx.elem("c1"), ctx.elem("k1"), ctx.elem("k2")
  kind = cfg["kind"]
  s = ControlStream(c0) if kind == "control" else Stream(c0)
  def build(op, k):
    fn = getattr(operator, "__%s__" % op.name[op.rev:])
    if op.arity == 1: return fn(s), (lambda v: fn(v))
    if op.rev: return fn(k, s), (lambda v: fn(k, v))
    return fn(s, k), (lambda v: fn(v, k))
  r1, f1 = build(op1, k1)
  r2, f2 = build(op2, k2)
  ctx.prove(r1 is not s and r2 is not s and r1 is not r2, "expression-is-a-new-stream")
  n = 3
  g1, g2, g0 = r1.take(n), r2.take(n), s.take(n)
  ctx.prove(len(g1) == n and And(*[same(x, f1(c0)) for x in g1]), "every-expression-sees-the-operand",
            "first expression (%s)" % op1.name)
  ctx.prove(len(g2) == n and And(*[same(x, f2(c0)) for x in g2]), "every-expression-sees-the-operand",
            "second expression (%s) built after the first" % op2.name)
  ctx.prove(len(g0) == n and And(*[same(x, c0) for x in g0]), "operand-unchanged-by-being-used", "")
  if kind == "control":
    s.value = c1
    g1, g2 = r1.take(2), r2.take(2)
    ctx.prove(And(*[same(x, f1(c1)) for x in g1]) and And(*[same(x, f2(c1)) for x in g2]),
              "every-expression-follows-the-knob", "after value = c1")


def h_compare_reflected(ctx, cfg):
  """list/scalar on the left of a comparison: Python reflects to the swapped Stream method."""
  name = cfg["op"]; N = cfg["N"]
  s_obj, s_m = _operand(ctx, "a", "stream", N)
  o_obj, o_m = _operand(ctx, "b", cfg["other"], N)
  fn = getattr(operator, name)
  res = fn(o_obj, s_obj)
  sw = getattr(operator, SWAP[name])
  model = _apply(lambda l, r: sw(r, l), o_m, s_m)
  _check_stream(ctx, res, model, "reflected-comparison", "op=%s" % name)


def h_unary(ctx, cfg):
  N = cfg["N"]
  s_obj, s_m = _operand(ctx, "a", cfg["self"], N)
  fn = {"neg": operator.neg, "pos": operator.pos, "invert": operator.invert, "abs": abs}[cfg["op"]]
  res = fn(s_obj)
  _check_stream(ctx, res, _apply(fn, s_m), "unary-element-i-is-op(x_i)", "op=%s" % cfg["op"])


def _rand_tree(rng, depth, binops, unops):
  if depth == 0:
    return ("leaf", rng.choice(["stream", "stream", "list", "tuple", "gen", "scalar", "periodic"]))
  r = rng.random()
  if r < 0.2:
    return ("un", rng.choice(unops), _rand_tree(rng, depth - 1, binops, unops))
  l = _rand_tree(rng, rng.randint(0, depth - 1) if rng.random() < .5 else depth - 1, binops, unops)
  r_ = _rand_tree(rng, rng.randint(0, depth - 1), binops, unops)
  return ("bin", rng.choice(binops), l, r_)


def _has_stream(t):
  if t[0] == "leaf": return t[1] in ("stream", "periodic")
  if t[0] == "un": return _has_stream(t[2])
  return _has_stream(t[2]) or _has_stream(t[3])


def h_tree(ctx, cfg):
  """Nested expression versus an independent list interpreter of the same tree."""
  from audiolazy import Stream
  N = cfg["N"]
  counter = [0]
  def build(t):
    if t[0] == "leaf":
      counter[0] += 1
      return _operand(ctx, "v%d_" % counter[0], t[1], N)
    if t[0] == "un":
      o, m = build(t[2])
      fn = {"neg": operator.neg, "pos": operator.pos, "invert": operator.invert, "abs": abs}[t[1]]
      if not isinstance(o, Stream): ctx.exclude("unary on a non-stream leaf")
      return fn(o), _apply(fn, m)
    lo, lm = build(t[2]); ro, rm = build(t[3])
    fn = getattr(operator, "__%s__" % t[1])
    if not (isinstance(lo, Stream) or isinstance(ro, Stream)):
      ctx.exclude("no Stream in this sub-expression")
    if t[1] in SWAP and not isinstance(lo, Stream):
      sw = getattr(operator, "__%s__" % SWAP[t[1]])
      return fn(lo, ro), _apply(lambda l, r: sw(r, l), lm, rm)
    return fn(lo, ro), _apply(fn, lm, rm)
  tree = cfg["tree"]
  res, model = build(tree)
  _check_stream(ctx, res, model, "nested-expression-equals-list-interpreter", "tree=%r" % (tree,))


def h_attr_call(ctx, cfg):
  """Stream.name and Stream(*args) act element by element."""
  from audiolazy import Stream
  N = cfg["N"]
  s_obj, s_m = _operand(ctx, "a", "stream", N)
  k = ctx.elem("k")
  if cfg["what"] == "attr":
    res = s_obj.some_attribute
    model = _apply(lambda e: e.some_attribute, s_m)
  elif cfg["what"] == "call":
    res = s_obj(k)
    model = _apply(lambda e: e(k), s_m)
  else:
    res = s_obj.method(k, k)
    model = _apply(lambda e: e.method(k, k), s_m)
  _check_stream(ctx, res, model, "elementwise-attribute-or-call", cfg["what"])


CONTAINERS = ["scalar", "list", "tuple", "deque", "set", "stream", "gen", "range", "map", "zip", "filter", "enumerate",
              "frozenset", "dictkeys"]


def _container(kind, items):
  from audiolazy import Stream
  return {"list": lambda: list(items), "tuple": lambda: tuple(items), "deque": lambda: collections.deque(items),
          "set": lambda: set(items), "frozenset": lambda: frozenset(items), "stream": lambda: Stream(list(items)),
          "gen": lambda: (x for x in items), "map": lambda: map(lambda x: x, items),
          "filter": lambda: filter(lambda x: True, items),
          # one-shot iterators that are not generator objects
          "listiter": lambda: iter(list(items)), "tupleiter": lambda: iter(tuple(items)),
          "reversed": lambda: reversed(list(items)[::-1]), "islice": lambda: it.islice(list(items), len(items)),
          "chain": lambda: it.chain(list(items)[:1], list(items)[1:]),
          "dictkeys": lambda: iter({i: x for i, x in enumerate(items)}.values()),
          }[kind]()


ITERATORS = ("listiter", "tupleiter", "reversed", "islice", "chain", "dictkeys")


def h_elementwise(ctx, cfg):
  """The decorator itself, with an uninterpreted function: container kind preserved, element i = F(arg_i),
  secondary arguments passed to every call, lazy inputs stay lazy."""
  from audiolazy.lazy_misc import elementwise
  from audiolazy import Stream
  N = cfg["N"]; kind = cfg["kind"]; style = cfg["style"]
  n = ctx.split("len", 0, N)
  items = ctx.elems("a", n)
  ctx.distinct(items)
  k = ctx.elem("k")
  calls = []
  def F(x, extra=None, other=None):
    calls.append(x)
    return ctx.apply("F", lambda a, b, c: (a, b, c), x, extra if extra is not None else "none",
                     other if other is not None else "none")
  W = {"pos": lambda: elementwise("x", 0)(F), "kwonly": lambda: elementwise("x")(F),
       "default": lambda: elementwise()(F), "pos1": lambda: elementwise("extra", 1)(lambda a, extra, other=None: F(extra, a, other))
       }[cfg["deco"]]()
  pulled = [0]
  def src():
    for x in items:
      pulled[0] += 1
      yield x
  if kind == "scalar":
    arg = items[0] if items else k
    items = [arg]
  elif kind == "gen": arg = src()
  elif kind == "range": arg = None
  else: arg = _container(kind, items)
  if cfg["deco"] == "pos1":
    res = W(k, arg, other=k)
    want = [F(x, k, k) for x in items]
  elif style == "positional":
    res = W(arg); want = [F(x) for x in items]
  elif style == "pos+kw":
    res = W(arg, extra=k); want = [F(x, k) for x in items]
  elif style == "pos+pos":
    res = W(arg, k, k); want = [F(x, k, k) for x in items]
  elif style == "keyword":
    res = W(x=arg, other=k); want = [F(x, None, k) for x in items]
  else: raise ValueError(style)
  del calls[:]
  if kind == "scalar":
    ctx.prove(same(res, want[0]), "scalar-in-scalar-out")
    return
  if kind in ("gen", "map", "filter") + ITERATORS:
    ctx.prove(isinstance(res, type(x for x in [])), "lazy-input-gives-generator", "type=%s" % type(res).__name__)
    if kind == "gen":
      ctx.prove(pulled[0] == 0, "lazy-input-not-consumed-before-iteration", "pulled %d" % pulled[0])
    got = list(res)
  else:
    ctx.prove(type(res) is type(arg), "same-kind-of-container", "in=%s out=%s" % (type(arg).__name__, type(res).__name__))
    got = list(res)
  if kind in ("set", "frozenset"):
    ctx.prove(len(got) == len(want), "element-count")
    for w in want:
      ctx.prove(Or(*[same(g, w) for g in got]) if got else False, "set-holds-F(x)-of-every-element")
    return
  ctx.observe("n", len(got))
  ctx.prove(len(got) == len(want), "element-count", "got %d want %d" % (len(got), len(want)))
  ctx.prove(And(*[same(g, w) for g, w in zip(got, want)]) if got else True, "element-i-is-F(arg_i,secondary args)")


class MathProxy:
  """Stands for the math module inside lazy_math: uninterpreted real functions on symbolic arguments."""
  def __getattr__(self, name):
    real = getattr(math, name)
    if not callable(real): return real
    def f(*args):
      if any(isinstance(a, Sym) for a in args):
        import z3
        fn = z3.Function("math_" + name, *([z3.RealSort()] * (len(args) + 1)))
        return Sym(fn(*[Sym.of(a).term() for a in args]))
      return real(*args)
    return f


def h_db_sign(ctx, cfg):
  """dB10/dB20/sign/absolute on symbolic reals inside containers."""
  import audiolazy.lazy_math as lm
  from symrun.stubs import patched
  n = cfg["n"]
  xs = ctx.reals("x", n)
  mp = MathProxy()
  with patched(lm, math=mp):
    kind = cfg["kind"]
    arg = _container(kind, xs)
    name = cfg["f"]
    res = getattr(lm, name)(arg)
    ctx.prove(type(res) is type(arg) or kind == "gen", "same-kind-of-container")
    got = list(res)
    ctx.prove(len(got) == n, "element-count")
    for i, (g, x) in enumerate(zip(got, xs)):
      if name in ("dB10", "dB20"):
        if bool(x == 0):
          ctx.prove(isinstance(g, float) and g == -INF, "dB-of-zero-is-minus-inf", "i=%d got %r" % (i, g))
        else:
          ctx.prove(ctx.eq(g, (10 if name == "dB10" else 20) * mp.log10(abs(x))), "dB-is-k*log10|x|", "i=%d" % i)
      elif name == "sign":
        want = 1 if bool(x > 0) else (-1 if bool(x < 0) else 0)
        ctx.prove(g == want, "sign", "i=%d got %r want %r" % (i, g, want))
      elif name == "absolute":
        ctx.prove(ctx.eq(g, abs(x)), "absolute", "i=%d" % i)
        ctx.observe("abs", g)


def h_mathnames(ctx, cfg):
  """Every broadcasting function of the math/dB/MIDI family: scalar in -> scalar out, container kind preserved,
  element i = f(arg_i).  Values are concrete here (C functions); the container length is case-split."""
  import audiolazy.lazy_math as lm
  import audiolazy.lazy_midi as mi
  from audiolazy import Stream
  name = cfg["name"]
  f = getattr(lm, name, None) or getattr(mi, name)
  pool = {"str2midi": ["C4", "A#3", "Bb5"], "str2freq": ["C4", "A4", "D#2"], "acosh": [1.5, 2.0, 4.0],
          "factorial": [3, 0, 5], "midi2str": [60, 61.5, 69], "freq2str": [440., 261.6, 1000.]}.get(name, [0.25, 0.5, 0.75])
  n = ctx.split("len", 0, 3)
  vals = pool[:n]
  kind = cfg["kind"]
  if kind == "scalar":
    v = pool[0]
    r = f(v)
    ctx.prove(not isinstance(r, (list, Stream, type(x for x in []))) or name in ("frexp", "modf"), "scalar-in-scalar-out",
              "type=%s" % type(r).__name__)
    return
  arg = _container(kind, vals)
  res = f(arg)
  if kind in ("gen", "map", "filter"):
    ctx.prove(isinstance(res, type(x for x in [])), "lazy-input-gives-generator")
  else:
    ctx.prove(type(res) is type(arg), "same-kind-of-container", "%s(%s) -> %s" % (name, kind, type(res).__name__))
  got = list(res)
  want = [f(v) for v in vals]
  if kind == "set":
    key = lambda v: repr(v)
    got, want = sorted(set(got), key=key), sorted(set(want), key=key)
  same_ = len(got) == len(want) and all((g == w) or (g != g and w != w) for g, w in zip(got, want))
  ctx.prove(same_, "element-i-is-f(arg_i)", "%s: got %r want %r" % (name, got, want))


def _names():
  import audiolazy.lazy_math as lm
  import audiolazy.lazy_midi as mi
  out = [n for n in lm.__all__ if callable(getattr(lm, n))]
  out += [n for n in ("midi2freq", "str2midi", "str2freq", "freq2midi", "midi2str", "freq2str")]
  return out


TYPED = {"bool": [True, False, True], "int": [5, -3, 2], "float": [0.5, -2.25, 4.0],
         "complex": [1 + 2j, -0.5j, 3 + 0j], "fraction": None}


def _strict_same(g, w):
  """equal AND indistinguishable: same type, same sign of zero (also inside a complex)"""
  if type(g) is not type(w): return False
  if isinstance(w, complex):
    return _strict_same(g.real, w.real) and _strict_same(g.imag, w.imag)
  if isinstance(w, float):
    if w != w: return g != g
    return g == w and math.copysign(1.0, g) == math.copysign(1.0, w)
  return g == w


MIXED = [3, -3.0, 3.0, True, 1, 1.0, -3, 0.0, -0.0, complex(-1, 0.0), complex(-1, -0.0)]


def h_mixed_items(ctx, cfg):
  """One container holding items that compare equal (and hash equally) but are different objects - 3 / 3.0 / True,
  0.0 / -0.0, -1+0j / -1-0j: element i of the result is the function applied to element i ITSELF."""
  import cmath
  import audiolazy.lazy_math as lm
  from audiolazy import Stream
  name, kind = cfg["name"], cfg["kind"]
  f = getattr(lm, name)
  start = ctx.split("start", 0, 3); n = ctx.split("len", 0, len(MIXED) - 3)
  vals = (MIXED + MIXED)[start:start + n]
  arg = _container(kind, vals) if kind != "stream" else Stream(list(vals))
  def one(v):
    try: return ("ok", f(v))
    except Exception as e: return ("exc", type(e).__name__)
  want = [one(v) for v in vals]
  if any(w[0] == "exc" for w in want): ctx.exclude("the function itself refuses one of the items")
  got = list(f(arg))
  ok = len(got) == len(want) and all(_strict_same(g, w[1]) for g, w in zip(got, want))
  ctx.prove(ok, "element-i-is-f(arg_i)", "%s over a %s of equal-but-distinguishable items %r: got %r want %r"
            % (name, kind, vals, got, [w[1] for w in want]))


def h_typed(ctx, cfg):
  """Concrete element types (bool, int, float, complex, exact rationals): the result is exactly what the element type's
  own operator gives (catches type-specific special-casing that uninterpreted elements cannot see)."""
  from fractions import Fraction
  from audiolazy import Stream
  ops = {op.name: op for op in _table()}
  op = ops[cfg["op"]]
  vals = TYPED[cfg["type"]] or [Fraction(1, 3), Fraction(-5, 2), Fraction(7)]
  other = TYPED[cfg["other"]] or [Fraction(2, 7), Fraction(3), Fraction(-1, 4)]
  if op.name == "rpow" and cfg["other"] == "fraction":
    # Fraction.__pow__ itself converts the base to float before Python ever reaches Stream.__rpow__
    # (`float(a) ** b` for a non-rational b): not something the Stream can influence
    ctx.exclude("Fraction ** Stream is float(Fraction) ** Stream by Fraction's own rules")
  n = ctx.split("len", 0, 3)
  fn = getattr(operator, "__%s__" % op.name[op.rev:])
  def elem(f, *a):
    try: return ("ok", f(*a))
    except Exception as e: return ("exc", type(e).__name__)
  if op.arity == 1:
    want = [elem(fn, v) for v in vals[:n]]
    res = fn(Stream(list(vals[:n])))
  elif op.rev:
    if cfg["scalar"]:
      want = [elem(fn, other[0], v) for v in vals[:n]]; res = fn(other[0], Stream(list(vals[:n])))
    else:
      want = [elem(fn, o, v) for o, v in zip(other, vals[:n])]; res = fn(list(other), Stream(list(vals[:n])))
  else:
    if cfg["scalar"]:
      want = [elem(fn, v, other[0]) for v in vals[:n]]; res = fn(Stream(list(vals[:n])), other[0])
    else:
      want = [elem(fn, v, o) for v, o in zip(vals[:n], other)]; res = fn(Stream(list(vals[:n])), tuple(other))
  got = []
  it = iter(res)
  for i in range(len(want)):
    got.append(elem(next, it))
  same_ = len(got) == len(want) and all(g[0] == w[0] and (g[1] == w[1] and type(g[1]) is type(w[1])) for g, w in zip(got, want))
  ctx.prove(same_, "typed-elements:result-is-the-element-type's-own-operator", "%s %s/%s: got %r want %r" % (op.name, cfg["type"], cfg["other"], got, want))
  if all(w[0] == "ok" for w in want):
    ctx.prove(elem(next, it)[0] == "exc", "typed-elements:ends-with-the-operand")


def tasks(tier, seed):
  big = tier == "thorough"
  N = 5 if big else 4
  T = []
  table = _table()
  for op in table:
    for ty in TYPED:
      if op.arity == 1:
        T.append(("h_typed", {"op": op.name, "type": ty, "other": ty, "scalar": False}))
        continue
      for oth in (ty, "int") if ty != "int" else ("int", "float"):
        for sc in (False, True):
          T.append(("h_typed", {"op": op.name, "type": ty, "other": oth, "scalar": sc}))
  for op in table:
    if op.arity == 1:
      for sk in ("stream", "periodic"):
        T.append(("h_unary", {"op": op.name, "self": sk, "N": N}))
      continue
    for sk in ("stream", "periodic"):
      for ok in KINDS:
        if op.rev and ok in ("stream", "periodic"): continue
        if sk == "periodic" and ok in ("gen", "iter", "tuple") and not big: continue
        T.append(("h_binary", {"op": op.name, "self": sk, "other": ok, "N": N}))
  T.append(("h_unary", {"op": "abs", "self": "stream", "N": N}))
  for name in SWAP:
    for ok in ("list", "tuple", "scalar", "gen"):
      T.append(("h_compare_reflected", {"op": name, "other": ok, "N": N}))
  rng = random.Random(1000 + seed)
  binops = sorted({op.name[op.rev:] for op in table if op.arity == 2})
  unops = ["neg", "pos", "invert", "abs"]
  shapes = []
  # every ordered operator pair once at depth 2 (left-nested), then seeded random shapes
  pairs = [(a, b) for a in binops for b in binops]
  rng.shuffle(pairs)
  for a, b in pairs[: (len(pairs) if big else 400)]:
    l1 = rng.choice(["stream", "periodic", "stream"]); l2 = rng.choice(KINDS[:4] + ["scalar", "stream"]); l3 = rng.choice(KINDS[:4] + ["scalar", "periodic"])
    t = ("bin", b, ("bin", a, ("leaf", l1), ("leaf", l2)), ("leaf", l3)) if rng.random() < .6 else \
        ("bin", b, ("leaf", l3), ("bin", a, ("leaf", l1), ("leaf", l2)))
    shapes.append(t)
  n3 = 1500 if big else 150
  while n3 > 0:
    t = _rand_tree(rng, 3, binops, unops)
    if _has_stream(t) and t[0] != "leaf":
      shapes.append(t); n3 -= 1
  for t in shapes:
    T.append(("h_tree", {"tree": t, "N": 2 if not big else 3}))
  for what in ("attr", "call", "method"):
    T.append(("h_attr_call", {"what": what, "N": N}))
  names = [op.name for op in _table()]
  pick = [n for n in ("add", "radd", "sub", "rsub", "mul", "rtruediv", "pow", "rpow", "lt", "eq", "and", "ror", "neg", "invert")
          if n in names]
  for kind in ("const", "control"):
    for i, o1 in enumerate(pick):
      for o2 in (pick[(i + 1) % len(pick)], pick[(i + 5) % len(pick)]) + ((o1,) if big else ()):
        T.append(("h_shared_operand", {"kind": kind, "op1": o1, "op2": o2}))
  for kind in ("scalar", "list", "tuple", "deque", "set", "frozenset", "stream", "gen", "map", "filter") + ITERATORS:
    for deco, styles in (("pos", ("positional", "pos+kw", "pos+pos", "keyword")), ("kwonly", ("keyword",)),
                         ("default", ("positional", "pos+kw")), ("pos1", ("positional",))):
      for style in styles:
        T.append(("h_elementwise", {"kind": kind, "deco": deco, "style": style, "N": N}))
  for f in ("dB10", "dB20", "sign", "absolute"):
    for kind in ("list", "tuple", "stream", "deque", "gen"):
      T.append(("h_db_sign", {"f": f, "kind": kind, "n": 2}))
  for name in _names():
    for kind in ("scalar", "list", "tuple", "deque", "stream", "gen", "map", "set"):
      if kind == "set" and name in ("frexp",): continue
      T.append(("h_mathnames", {"name": name, "kind": kind}))
  for name in ("absolute", "sign", "phase", "exp", "dB20"):
    for kind in ("list", "tuple", "gen", "stream"):
      T.append(("h_mixed_items", {"name": name, "kind": kind}))
  return T
