"""C05 - filter algebra is system algebra."""
from fractions import Fraction
from symrun.nums import Sym, And, Or, Not
from props.C07 import _radd, _rmul, _rscale

META = {
  "functions": ["ZFilter.__add__/__sub__/__mul__/__truediv__/__pow__", "ZFilterMeta.__rbinary__/__unary__",
                "ZFilter.__call__(ZFilter) (substitution)", "CascadeFilter/ParallelFilter.__call__/numpoly/denpoly",
                "LinearFilter.__eq__/__ne__/__hash__", "LinearFilter.__init__/__call__/linearize", "Poly.* underneath"],
  "bounds": {"quick": "pairs of filters with <=2 numerator and <=2 denominator coefficients (FIR order<=2 in the FIR/FIR "
                      "cases), all coefficients symbolic reals, input length N<=3 symbolic samples, exponents n in -1..3, "
                      "delays k<=3; rational-function laws on orders<=1 triples",
             "thorough": "orders<=2 with enumerated sparsity patterns, N<=4, rational-function laws orders<=2"},
  "outside": "time-varying coefficients (C06), non-causal operands at signal level, a zero divisor filter in '/', "
             "orders above the bound, IEEE rounding",
  "stubs": [],
  "assumptions": ["a0 != 0 for every operand (causal filter precondition)", "divisor filters have a non-zero leading numerator coefficient",
                  "zero value of the signals is the integer 0", "exact real arithmetic"],
}
CAPS = {"quick": {"query_s": 20, "max_paths": 6000, "witness_every": 3},
        "thorough": {"query_s": 90, "max_paths": 40000, "witness_every": 5}}


def ref_filter(b, a, x):
  """Independent direct form: a0*y[n] = sum b_k x[n-k] - sum a_k y[n-k], zero initial state."""
  y = []
  for n in range(len(x)):
    acc = 0
    for k, c in b.items():
      if n - k >= 0: acc = acc + c * x[n - k]
    for k, c in a.items():
      if k and n - k >= 0: acc = acc - c * y[n - k]
    y.append(acc / a[0])
  return y


def _mk(ctx, tag, nb, na, nz=False, exps_b=None, exps_a=None):
  """-> (ZFilter, bdict, adict) with symbolic coefficients, a0 != 0."""
  from audiolazy import ZFilter
  eb = exps_b or list(range(nb)); ea = exps_a or list(range(na))
  b = [ctx.real("%sb%d" % (tag, i), nonzero=nz) for i in range(len(eb))]
  a = [ctx.real("%sa%d" % (tag, i), nonzero=(nz or i == 0)) for i in range(len(ea))]
  bd, ad = dict(zip(eb, b)), dict(zip(ea, a))
  return ZFilter(dict(bd), dict(ad)), bd, ad


def _cmp(ctx, out, ref, clause, N):
  out = list(out)
  ctx.prove(len(out) == N, clause + ":length", "len=%d" % len(out))
  for n in range(min(N, len(out))):
    ctx.observe(clause, out[n])
    ctx.prove(ctx.eq(out[n], ref[n]), clause, "n=%d" % n)


def h_signal(ctx, cfg):
  """(f op g)(x) versus the composition of reference outputs."""
  from audiolazy import ZFilter, z, CascadeFilter, ParallelFilter
  N = cfg["N"]; op = cfg["op"]
  nz = cfg.get("nz", False)
  f, fb, fa = _mk(ctx, "f", cfg["f"][0], cfg["f"][1], nz)
  x = ctx.reals("x", N)
  fx = ref_filter(fb, fa, x)
  if op in ("add", "sub", "mul", "div", "cascade", "parallel"):
    g, gb, ga = _mk(ctx, "g", cfg["g"][0], cfg["g"][1], nz)
    gx = ref_filter(gb, ga, x)
  if op == "add":
    _cmp(ctx, (f + g)(list(x), zero=0), [p + q for p, q in zip(fx, gx)], "sum-filter", N)
  elif op == "sub":
    _cmp(ctx, (f - g)(list(x), zero=0), [p - q for p, q in zip(fx, gx)], "difference-filter", N)
  elif op == "mul":
    out = list((f * g)(list(x), zero=0))
    _cmp(ctx, out, ref_filter(fb, fa, gx), "product-is-f-of-g", N)
    _cmp(ctx, out, ref_filter(gb, ga, fx), "product-is-g-of-f", N)
  elif op == "div":
    ctx.assume(gb[0] != 0)
    _cmp(ctx, ((f / g) * g)(list(x), zero=0), fx, "quotient-times-divisor", N)
  elif op in ("cmul", "mulc", "addc", "csub", "neg", "divc"):
    c = ctx.real("c")
    if op == "cmul": _cmp(ctx, (c * f)(list(x), zero=0), [c * p for p in fx], "scalar-times-filter", N)
    if op == "mulc": _cmp(ctx, (f * c)(list(x), zero=0), [c * p for p in fx], "filter-times-scalar", N)
    if op == "addc": _cmp(ctx, (f + c)(list(x), zero=0), [p + c * q for p, q in zip(fx, x)], "filter-plus-scalar", N)
    if op == "csub": _cmp(ctx, (c - f)(list(x), zero=0), [c * q - p for p, q in zip(fx, x)], "scalar-minus-filter", N)
    if op == "neg": _cmp(ctx, (-f)(list(x), zero=0), [-p for p in fx], "negated-filter", N)
    if op == "divc":
      ctx.assume(c != 0)
      _cmp(ctx, (f / c)(list(x), zero=0), [p / c for p in fx], "filter-over-scalar", N)
  elif op == "pow":
    n = cfg["n"]
    if n >= 0:
      r = list(x)
      for _ in range(n): r = ref_filter(fb, fa, r)
      _cmp(ctx, (f ** n)(list(x), zero=0), r, "power-is-repeated-application", N)
    else:
      ctx.assume(fb[0] != 0)
      r = ref_filter(fb, fa, list((f ** n)(list(x), zero=0)))
      for _ in range(-n - 1): r = ref_filter(fb, fa, r)
      _cmp(ctx, r, list(x), "negative-power-is-inverse", N)
  elif op == "delay":
    k = cfg["k"]
    d = z ** -k
    _cmp(ctx, d(list(x), zero=0), [x[n - k] if n - k >= 0 else 0 for n in range(N)], "z^-k-delays-by-k", N)
    _cmp(ctx, (f * d)(list(x), zero=0), [fx[n - k] if n - k >= 0 else 0 for n in range(N)], "filter-times-delay", N)
  elif op == "cascade":
    if cfg.get("alt"):
      _cmp(ctx, CascadeFilter([f, g])(iter(list(x)), zero=0), ref_filter(gb, ga, fx), "cascade-list-ctor", N)
    else:
      cas = CascadeFilter(f, g)
      _cmp(ctx, cas(list(x), zero=0), ref_filter(gb, ga, fx), "cascade-is-composition", N)
      cas.reverse(); cas[0] = f              # same length, other parts: [f, f]
      _cmp(ctx, cas(list(x), zero=0), ref_filter(fb, fa, fx), "cascade-is-composition", N)
  elif op == "parallel":
    if cfg.get("alt"):
      _cmp(ctx, ParallelFilter(f, g)(iter(list(x)), zero=0), [p + q for p, q in zip(fx, gx)], "parallel-on-iterator", N)
      _cmp(ctx, ParallelFilter()(list(x), zero=0), [0] * N, "empty-parallel-is-zero", N)
    else:
      par = ParallelFilter(f, g)
      _cmp(ctx, par(list(x), zero=0), [p + q for p, q in zip(fx, gx)], "parallel-is-sum", N)
      par[0] = g                             # same length, other parts: [g, g]
      _cmp(ctx, par(list(x), zero=0), [q + q for q in gx], "parallel-is-sum", N)
  elif op == "radd":
    # reflected operators with plain numbers on the left
    c = ctx.real("c")
    if cfg.get("alt"):
      _cmp(ctx, (c + f)(list(x), zero=0), [p + c * q for p, q in zip(fx, x)], "scalar-plus-filter", N)
    else:
      ctx.assume(fb[0] != 0)
      inv = (c / f)(list(x), zero=0)      # c * f^-1
      _cmp(ctx, ref_filter(fb, fa, list(inv)), [c * q for q in x], "scalar-over-filter", N)
  else:
    raise ValueError(op)


def _ratio(filt):
  return dict(filt.numpoly.terms()), dict(filt.denpoly.terms())


def _cross(ctx, filt, N, D, clause):
  """filt == N/D as rational functions: filt.num * D == N * filt.den coefficientwise."""
  rn, rd = _ratio(filt)
  lhs, rhs = _rmul(rn, D), _rmul(N, rd)
  cl = [ctx.eq(lhs.get(k, 0), rhs.get(k, 0)) for k in set(lhs) | set(rhs)]
  ctx.prove(And(*cl) if cl else True, clause)
  # the denominator of a filter object is never the zero polynomial
  ctx.prove(len(rd) > 0, clause + ":nonzero-denominator")


def h_field(ctx, cfg):
  """Field laws on numerator/denominator polynomials by cross-multiplication."""
  from audiolazy import ZFilter, z, CascadeFilter, ParallelFilter
  nz = cfg.get("nz", False)
  f, fb, fa = _mk(ctx, "f", *cfg["f"], nz=nz)
  g, gb, ga = _mk(ctx, "g", *cfg["g"], nz=nz)
  law = cfg["law"]
  if law == "basic":
    _cross(ctx, f + g, _radd(_rmul(fb, ga), _rmul(gb, fa)), _rmul(fa, ga), "sum")
    _cross(ctx, f - g, _radd(_rmul(fb, ga), _rscale(_rmul(gb, fa), -1)), _rmul(fa, ga), "difference")
    _cross(ctx, f * g, _rmul(fb, gb), _rmul(fa, ga), "product")
    _cross(ctx, g + f, *_ratio(f + g), clause="sum-commutative")
    _cross(ctx, g * f, *_ratio(f * g), clause="product-commutative")
    if any(bool(c != 0) for c in gb.values()):
      _cross(ctx, f / g, _rmul(fb, ga), _rmul(fa, gb), "quotient")
    if any(bool(c != 0) for c in fb.values()):
      _cross(ctx, f / f, {0: 1}, {0: 1}, "f-over-f-is-one")
    cas, par = CascadeFilter(f, g), ParallelFilter(f, g)
    _cross(ctx, cas, _rmul(fb, gb), _rmul(fa, ga), "cascade-polynomials")
    _cross(ctx, par, _radd(_rmul(fb, ga), _rmul(gb, fa)), _rmul(fa, ga), "parallel-polynomials")
    # the lists are mutable: after a part is replaced (same length) the polynomials are those of the parts held NOW
    cas[1] = f; par[0] = g
    _cross(ctx, cas, _rmul(fb, fb), _rmul(fa, fa), "cascade-polynomials")
    _cross(ctx, par, _rscale(_rmul(gb, ga), 2), _rmul(ga, ga), "parallel-polynomials")
  elif law == "triple":
    h, hb, ha = _mk(ctx, "h", *cfg["h"], nz=nz)
    _cross(ctx, (f + g) + h, *_ratio(f + (g + h)), clause="sum-associative")
    _cross(ctx, (f * g) * h, *_ratio(f * (g * h)), clause="product-associative")
    _cross(ctx, f * (g + h), *_ratio(f * g + f * h), clause="distributive")
  elif law == "pow":
    n = cfg["n"]
    N, D = {0: 1}, {0: 1}
    src_n, src_d = (fb, fa) if n >= 0 else (fa, fb)
    if n < 0: ctx.assume(Or(*[c != 0 for c in fb.values()]))
    for _ in range(abs(n)): N, D = _rmul(N, src_n), _rmul(D, src_d)
    _cross(ctx, f ** n, N, D, "power")
  elif law == "subst":
    # f(g): g substituted for z, i.e. z^-k -> (g_den/g_num)^k
    ctx.assume(Or(*[c != 0 for c in gb.values()]))
    K = max(max(fb), max(fa))
    def sub(coefs):
      out = {}
      for k, c in coefs.items():
        t = {0: 1}
        for _ in range(k): t = _rmul(t, ga)
        for _ in range(K - k): t = _rmul(t, gb)
        out = _radd(out, _rscale(t, c))
      return out
    N, D = sub(fb), sub(fa)
    if not any(bool(v != 0) for v in D.values()):
      ctx.exclude("substitution makes the denominator vanish")
    try:
      r = f(g)
    except ZeroDivisionError:
      ctx.exclude("division by the zero filter inside the substitution")
    _cross(ctx, r, N, D, "substitution")
  else:
    raise ValueError(law)


def h_eqne(ctx, cfg):
  """exactly one of f==g, f!=g; equal filters hash equally."""
  f, fb, fa = _mk(ctx, "f", *cfg["f"])
  g, gb, ga = _mk(ctx, "g", *cfg["g"])
  e, ne = bool(f == g), bool(f != g)
  ctx.prove(e != ne, "exactly-one-of-eq-ne", "eq=%s ne=%s" % (e, ne))
  # == is structural equality of both polynomials
  fn, fd = _ratio(f); gn, gd = _ratio(g)
  same = all(bool(ctx.eq(fn.get(k, 0), gn.get(k, 0))) for k in set(fn) | set(gn)) and \
         all(bool(ctx.eq(fd.get(k, 0), gd.get(k, 0))) for k in set(fd) | set(gd))
  ctx.prove(e == same, "eq-is-equality-of-both-polynomials", "eq=%s same=%s" % (e, same))
  if e:
    ctx.prove(hash(f) == hash(g), "equal-filters-hash-equal")
  ctx.prove(bool(f == f) and not bool(f != f), "reflexive")
  ctx.prove((f == 3) is False or not bool(f == 3), "eq-with-non-filter")
  # the other operand need not be a LinearFilter: a number, a one-section cascade / parallel bank of the same filter
  from audiolazy import CascadeFilter, ParallelFilter
  c = ctx.real("c")
  for tag, other in (("number", c), ("cascade", CascadeFilter(f)), ("parallel", ParallelFilter(f)), ("none", None)):
    for a, b, side in ((f, other, "left"), (other, f, "right")):
      e2, ne2 = bool(a == b), bool(a != b)
      ctx.prove(e2 != ne2, "exactly-one-of-eq-ne", "other operand: %s on the %s, eq=%s ne=%s" % (tag, side, e2, ne2))


def h_eq_order(ctx, cfg):
  """The same filter written with its terms in another order (dict order, operand order) is ==, not !=, and hashes
  equally - also with fractional delays, where the terms are kept in creation order."""
  from audiolazy import ZFilter, z
  eb, ea = cfg["eb"], cfg["ea"]
  f, fb, fa = _mk(ctx, "f", len(eb), len(ea), exps_b=eb, exps_a=ea)
  how = cfg["how"]
  if how == "dict":
    g = ZFilter(dict(reversed(list(fb.items()))), dict(reversed(list(fa.items()))))
  else:      # operator order: sum of the monomials, last term first
    num = sum((fb[k] * z ** -k for k in reversed(eb[:-1])), fb[eb[-1]] * z ** -eb[-1])
    den = sum((fa[k] * z ** -k for k in reversed(ea[:-1])), fa[ea[-1]] * z ** -ea[-1])
    g = num / den
    if how == "ops-vs-ops":
      num2 = sum((fb[k] * z ** -k for k in eb[1:]), fb[eb[0]] * z ** -eb[0])
      den2 = sum((fa[k] * z ** -k for k in ea[1:]), fa[ea[0]] * z ** -ea[0])
      f = num2 / den2
  fn, fd = _ratio(f); gn, gd = _ratio(g)
  same = And(*([ctx.eq(fn.get(k, 0), gn.get(k, 0)) for k in set(fn) | set(gn)] +
               [ctx.eq(fd.get(k, 0), gd.get(k, 0)) for k in set(fd) | set(gd)]))
  if not bool(same):
    ctx.exclude("operator route normalised the two differently (not the same polynomials)")
  e, ne = bool(f == g), bool(f != g)
  ctx.prove(e and not ne, "reordered-terms-are-equal", "eq=%s ne=%s" % (e, ne))
  ctx.prove(hash(f) == hash(g), "equal-filters-hash-equal", "term order %s" % how)


def h_linearize(ctx, cfg):
  """linearize splits a (dyadic, hence float-exact) fractional delay between its integer neighbours."""
  from audiolazy import ZFilter
  c = ctx.real("c", nonzero=True)
  d = ctx.real("d")
  k, fr = cfg["k"], cfg["frac"]          # delay k + fr, fr in {0.25, 0.5, 0.75}
  filt = ZFilter({0: d, k + fr: c}, {0: 1})
  lin = filt.linearize()
  n, dn = _ratio(lin)
  want = {0: d, k: c * (1 - Fraction(fr)), k + 1: c * Fraction(fr)}
  if k == 0: want = {0: d + c * (1 - Fraction(fr)), 1: c * Fraction(fr)}
  ctx.prove(And(*[ctx.eq(n.get(p, 0), want.get(p, 0)) for p in set(n) | set(want)]), "linearize-weights")
  ctx.prove(all(isinstance(p, int) for p in n), "linearize-integer-delays", "keys=%r" % list(n))
  x = ctx.reals("x", cfg["N"])
  _cmp(ctx, lin(list(x), zero=0), ref_filter(want, {0: 1}, x), "linearized-filter-output", cfg["N"])


def tasks(tier, seed):
  T = []
  big = tier == "thorough"
  N = 4 if big else 3
  shapes = [(1, 1), (2, 1), (1, 2)] + ([(2, 2)] if big else [])
  for op in ("add", "sub", "mul", "cascade", "parallel"):
    for fs in shapes:
      for gs in shapes:
        if fs[1] + gs[1] > 3 and not big: continue
        if big and fs == (2, 2) and gs == (2, 2):
          T.append(("h_signal", {"op": op, "f": fs, "g": gs, "N": 3, "nz": True}, {"optional": True}))
          continue
        T.append(("h_signal", {"op": op, "f": fs, "g": gs, "N": N}))
    if op in ("cascade", "parallel"):
      T.append(("h_signal", {"op": op, "f": (2, 1), "g": (1, 2), "N": N, "alt": True}))
  # second-order FIR operands (coefficients assumed non-zero: sparsity pattern fixed)
  for op in ("add", "mul", "parallel", "cascade"):
    T.append(("h_signal", {"op": op, "f": (3, 1), "g": (2, 1), "N": N, "nz": True}))
    if big: T.append(("h_signal", {"op": op, "f": (3, 1), "g": (1, 2), "N": N, "nz": True}))
  for fs, gs in (((1, 1), (1, 1)), ((2, 1), (1, 1)), ((1, 2), (1, 1)), ((1, 1), (2, 1)), ((1, 1), (1, 2))):
    T.append(("h_signal", {"op": "div", "f": fs, "g": gs, "N": N}))
  T.append(("h_signal", {"op": "div", "f": (2, 1), "g": (2, 1), "N": 3, "nz": True}))
  for fs in shapes + [(3, 1)]:
    nz = fs == (3, 1)
    for op in ("cmul", "mulc", "addc", "csub", "neg", "divc"):
      T.append(("h_signal", {"op": op, "f": fs, "N": N, "nz": nz}))
    T.append(("h_signal", {"op": "radd", "f": fs, "N": N, "nz": nz}))
    T.append(("h_signal", {"op": "radd", "f": fs, "N": N, "nz": nz, "alt": True}))
    for n in (0, 1, 2, 3, -1) + ((-2,) if big else ()):
      if fs == (3, 1) and abs(n) > 2: continue
      if n == 3 and fs != (1, 1) and not big: continue
      T.append(("h_signal", {"op": "pow", "f": fs, "n": n, "N": N, "nz": nz or abs(n) >= 2}))
    for k in (0, 1, 2, 3):
      T.append(("h_signal", {"op": "delay", "f": fs, "k": k, "N": N + 1, "nz": nz}))
  fshapes = [(1, 1), (2, 1), (1, 2), (2, 2)] + ([(3, 1), (1, 3), (3, 2), (2, 3)] if big else [])
  for fs in fshapes:
    for gs in fshapes:
      if not big and fs[0] + fs[1] + gs[0] + gs[1] > 7: continue
      if big and fs[0] + fs[1] + gs[0] + gs[1] > 8: continue
      T.append(("h_field", {"law": "basic", "f": fs, "g": gs}))
      if fs[0] + fs[1] + gs[0] + gs[1] <= 6:
        T.append(("h_field", {"law": "subst", "f": fs, "g": gs}))
      T.append(("h_eqne", {"f": fs, "g": gs}))
  for how in ("dict", "ops", "ops-vs-ops"):
    for eb, ea in (([0, 1], [0]), ([0, 1, 2], [0, 1]), ([0, 0.5], [0]), ([0, 1], [0, 0.5, 1]), ([0.25, 0, 1.5], [0, 2]),
                   ([1, 0], [0, 1])):
      T.append(("h_eq_order", {"how": how, "eb": eb, "ea": ea}))
  tri = [((1, 1), (1, 1), (1, 1)), ((2, 1), (1, 2), (1, 1)), ((1, 1), (2, 1), (1, 2))]
  if big: tri += [((1, 2), (1, 2), (2, 1)), ((2, 1), (2, 1), (1, 2)), ((2, 2), (1, 2), (2, 1)), ((2, 2), (2, 2), (1, 1))]
  for fs, gs, hs in tri:
    T.insert(0, ("h_field", {"law": "triple", "f": fs, "g": gs, "h": hs}))
  for fs in fshapes:
    for n in (0, 1, 2, 3, -1, -2):
      if fs[0] + fs[1] > 4 and abs(n) > 2: continue
      T.append(("h_field", {"law": "pow", "f": fs, "g": (1, 1), "n": n}))
  for k in (0, 1, 3):
    for fr in (0.25, 0.5, 0.75):
      T.append(("h_linearize", {"k": k, "frac": fr, "N": 5}))
  return T
