"""C06 - time-varying coefficients are sampled once per output sample."""
from symrun.nums import Sym, And, Or, Not
from props.C07 import _radd, _rmul, _rscale

META = {
  "functions": ["LinearFilter.__call__ (next(b{k})/next(a{k}) code paths, variable-a0 rewrite)", "ZFilter.__init__",
                "ZFilter.__add__/__sub__/__mul__/__truediv__ with Stream coefficients", "ZFilterMeta.__rbinary__",
                "Poly.__mul__/__truediv__/__add__/copy (thub accounting)", "Stream operators on coefficient streams",
                "StreamTeeHub", "avoid_stream dispatch (Stream * z**-k)"],
  "bounds": {"quick": "filters with <=3 numerator and <=3 denominator coefficients (orders<=2), any subset replaced by finite "
                      "streams of symbolic values (length shorter, equal, longer than the input) or periodic streams; N<=4 inputs; "
                      "algebra: sums, differences, products, quotients, scalings with one or two time-varying operands",
             "thorough": "N<=5 inputs, all four operations on pairs of time-varying operands"},
  "outside": "stream-valued delays, coefficient streams inside non-causal operands, re-using a consumed filter object",
  "stubs": [],
  "assumptions": ["leading denominator values a0[n] != 0 (and derived leading coefficients != 0)",
                  "coefficient sources are counting iterators over symbolic values", "exact real arithmetic"],
}
CAPS = {"quick": {"query_s": 20, "max_paths": 6000, "witness_every": 2},
        "thorough": {"query_s": 60, "max_paths": 40000, "witness_every": 4}}


class Counting:
  """Iterator that counts how many items were successfully pulled."""
  def __init__(self, items, periodic=False):
    self.items, self.pulled, self.periodic = list(items), 0, periodic
  def __iter__(self): return self
  def __next__(self):
    if self.periodic:
      v = self.items[self.pulled % len(self.items)]
    else:
      if self.pulled >= len(self.items): raise StopIteration
      v = self.items[self.pulled]
    self.pulled += 1
    return v


def _operand(ctx, tag, spec, N, nzc=False):
  """spec: list of (power, kind) for numerator and denominator; kind in c (constant), s<L> (finite stream of
  length L), p<L> (periodic stream with period L).  -> (num dict, den dict, value(n) accessor dicts, sources)"""
  from audiolazy import Stream
  srcs = []
  def mk(name, kind, nonzero):
    if kind == "c":
      v = ctx.real(name, nonzero=nonzero or nzc)
      return v, (lambda n, v=v: v), None
    L = int(kind[1:])
    vals = [ctx.real("%s_%d" % (name, i), nonzero=nonzero) for i in range(L)]
    per = kind[0] == "p"
    src = Counting(vals, periodic=per)
    srcs.append((name, src, None if per else L))
    acc = (lambda n, vals=vals, L=L: vals[n % L]) if per else (lambda n, vals=vals: vals[n])
    return Stream(src), acc, (None if per else L)
  num, den, nacc, dacc = {}, {}, {}, {}
  limit = [N]
  for k, kind in spec["num"]:
    c, acc, L = mk("%sb%d" % (tag, k), kind, False)
    num[k] = c; nacc[k] = acc
    if L is not None: limit.append(L)
  for k, kind in spec["den"]:
    c, acc, L = mk("%sa%d" % (tag, k), kind, k == 0)
    den[k] = c; dacc[k] = acc
    if L is not None: limit.append(L)
  return num, den, nacc, dacc, srcs, min(limit)


def _at(acc, n):
  return {k: f(n) for k, f in acc.items()}


def _check_output(ctx, out, x, numn, denn, nout, clause):
  """numn(n)/denn(n): coefficient dicts at time n."""
  ctx.prove(len(out) == nout, clause + ":length", "len(out)=%d expected=%d" % (len(out), nout))
  for n in range(min(len(out), nout)):
    nb, na = numn(n), denn(n)
    acc = 0
    for k, c in nb.items():
      if n - k >= 0: acc = acc + c * x[n - k]
    for k, c in na.items():
      if k and n - k >= 0: acc = acc - c * out[n - k]
    ctx.observe("y", out[n])
    ctx.prove(ctx.eq(na.get(0, 0) * out[n], acc), clause, "n=%d" % n)


def h_tv(ctx, cfg):
  """One filter, any subset of coefficients are streams."""
  from audiolazy import ZFilter, Stream, z
  N = cfg["N"]
  nzc = cfg.get("nzc", True)
  num, den, nacc, dacc, srcs, nout = _operand(ctx, "f", cfg["spec"], N, nzc)
  x = ctx.reals("x", N)
  if cfg.get("build") == "expr":
    filt = sum((c * z ** -k for k, c in num.items()), 0 * z) / sum((c * z ** -k for k, c in den.items()), 0 * z)
  else:
    filt = ZFilter(dict(num), dict(den))
  xs = Counting(x)
  res = filt(xs, zero=0)
  for name, s, L in srcs:
    ctx.prove(s.pulled == 0, "no-coefficient-read-before-demand", "%s pulled %d at construction" % (name, s.pulled))
  out = []
  it = iter(res)
  for n in range(N + 1):
    try:
      out.append(next(it))
    except StopIteration:
      break
    for name, s, L in srcs:
      # with possibly-zero constants a stream may be annihilated by a zero factor and never read:
      # then only "never ahead, never twice" is claimed
      ctx.prove(s.pulled == n + 1 if nzc else s.pulled <= n + 1, "coefficient-read-once-per-output",
                "%s pulled %d after %d outputs" % (name, s.pulled, n + 1))
  if nout == N and len(out) == N:
    # the input is what ended: coefficient streams that still have data were read once per produced output, not once
    # more for a sample that never comes (the same streams may go on serving the next chunk of input)
    for name, s, L in srcs:
      if L is None or L > N:
        ctx.prove(s.pulled == N if nzc else s.pulled <= N, "coefficient-read-once-per-output",
                  "%s pulled %d in all, %d outputs, input exhausted" % (name, s.pulled, N))
  _check_output(ctx, out, x, lambda n: _at(nacc, n), lambda n: _at(dacc, n), nout, "time-varying-difference-equation")


def h_const_stream(ctx, cfg):
  """A constant stream behaves like the constant."""
  from audiolazy import ZFilter, Stream
  N = cfg["N"]
  b = ctx.reals("b", 2); a1 = ctx.real("a1"); a0 = ctx.real("a0", nonzero=True)
  x = ctx.reals("x", N)
  which = cfg["which"]
  S = lambda v: Stream(v)           # endless repeat of the same value
  num = {0: S(b[0]) if "b0" in which else b[0], 1: S(b[1]) if "b1" in which else b[1]}
  den = {0: S(a0) if "a0" in which else a0, 1: S(a1) if "a1" in which else a1}
  out = list(ZFilter(num, den)(list(x), zero=0))
  ctx.prove(len(out) == N, "constant-stream:length")
  # reference: constant filter
  y = []
  for n in range(N):
    acc = b[0] * x[n] + (b[1] * x[n - 1] if n >= 1 else 0) - (a1 * y[n - 1] if n >= 1 else 0)
    y.append(acc / a0)
    if n < len(out): ctx.prove(ctx.eq(out[n], y[n]), "constant-stream-equals-constant", "n=%d" % n)


def h_algebra(ctx, cfg):
  """Filter arithmetic acts on the coefficient sequences element by element."""
  from audiolazy import ZFilter, Stream, z
  N = cfg["N"]
  nzc = cfg.get("nzc", True)
  fnum, fden, fna, fda, fsrc, fl = _operand(ctx, "f", cfg["f"], N, nzc)
  gnum, gden, gna, gda, gsrc, gl = _operand(ctx, "g", cfg["g"], N, nzc)
  f = ZFilter(dict(fnum), dict(fden)); g = ZFilter(dict(gnum), dict(gden))
  op = cfg["op"]
  # a denominator with Stream coefficients never compares equal to its copy, so the sum is cross-multiplied;
  # value-equal constant denominators take the documented shortcut (numerators added over one denominator)
  tvden = any(kind != "c" for k, kind in cfg["f"]["den"])
  c = ctx.real("c", nonzero=nzc)
  if op == "div": ctx.assume(Or(*[v != 0 for v in gnum.values() if isinstance(v, Sym)]) if any(isinstance(v, Sym) for v in gnum.values()) else True)
  if op == "add": r = f + g
  elif op == "sub": r = f - g
  elif op == "mul": r = f * g
  elif op == "cmul": r = c * f
  elif op == "mulc": r = f * c
  elif op == "addc": r = f + c
  elif op == "delay": r = f * z ** -1
  elif op == "div": r = f / g
  elif op == "self2":         # the same time-varying filter used twice through a copy
    r = f + f.copy() * c
    if not tvden: ctx.assume(c != -1)
  elif op in ("pow2", "pow3", "powm1", "powm2"):
    # integer powers: the algebra re-uses the operand's coefficient Streams |n| times (Poly.__pow__ copies them)
    r = f ** {"pow2": 2, "pow3": 3, "powm1": -1, "powm2": -2}[op]
    if op in ("powm1", "powm2"):
      ctx.assume(Or(*[v != 0 for v in fnum.values() if isinstance(v, Sym)]) if any(isinstance(v, Sym) for v in fnum.values()) else True)
  elif op == "samedenom":
    # H + H*c: both operands share H's denominator *object*, so the sum keeps it once and its Streams are
    # used once (legitimate without a copy only when the numerator holds no Stream)
    ctx.assume(c != -1)
    r = f + f * c
  elif op == "samedenom_sub":
    ctx.assume(c != 1)
    r = f - f * c
  else: raise ValueError(op)
  def _rpow(p, e):
    out = p
    for _ in range(e - 1): out = _rmul(out, p)
    return out
  def numn(n):
    fn, fd, gn, gd = _at(fna, n), _at(fda, n), _at(gna, n), _at(gda, n)
    if op in ("pow2", "pow3"): return _rpow(fn, int(op[-1]))
    if op in ("powm1", "powm2"): return _rpow(fd, int(op[-1]))
    return {"add": lambda: _radd(_rmul(fn, gd), _rmul(gn, fd)),
            "sub": lambda: _radd(_rmul(fn, gd), _rscale(_rmul(gn, fd), -1)),
            "mul": lambda: _rmul(fn, gn), "cmul": lambda: _rscale(fn, c), "mulc": lambda: _rscale(fn, c),
            "addc": lambda: _radd(fn, _rscale(fd, c)), "delay": lambda: {k + 1: v for k, v in fn.items()},
            "div": lambda: _rmul(fn, gd),
            "samedenom": lambda: _rscale(fn, 1 + c), "samedenom_sub": lambda: _rscale(fn, 1 - c),
            "self2": lambda: (_radd(_rmul(fn, fd), _rscale(_rmul(fn, fd), c)) if tvden else _rscale(fn, 1 + c))}[op]()
  def denn(n):
    fn, fd, gn, gd = _at(fna, n), _at(fda, n), _at(gna, n), _at(gda, n)
    if op in ("pow2", "pow3"): return _rpow(fd, int(op[-1]))
    if op in ("powm1", "powm2"): return _rpow(fn, int(op[-1]))
    return {"add": lambda: _rmul(fd, gd), "sub": lambda: _rmul(fd, gd), "mul": lambda: _rmul(fd, gd),
            "cmul": lambda: fd, "mulc": lambda: fd, "addc": lambda: fd, "delay": lambda: fd,
            "div": lambda: _rmul(fd, gn), "self2": lambda: (_rmul(fd, fd) if tvden else fd),
            "samedenom": lambda: fd, "samedenom_sub": lambda: fd}[op]()
  srcs = fsrc + (gsrc if op in ("add", "sub", "mul", "div") else [])
  nout = min(fl, gl) if op in ("add", "sub", "mul", "div") else fl
  for n in range(nout):
    ctx.assume(denn(n).get(0, 0) != 0)
  x = ctx.reals("x", N)
  res = r(Counting(x), zero=0)
  it = iter(res)
  out = []
  for n in range(N + 1):
    try:
      out.append(next(it))
    except StopIteration:
      break
    for name, s, L in srcs:
      ctx.prove(s.pulled == n + 1 if nzc else s.pulled <= n + 1, "coefficient-read-once-per-output",
                "%s pulled %d after %d outputs (op %s)" % (name, s.pulled, n + 1, op))
  _check_output(ctx, out, x, numn, denn, nout, "algebra-acts-per-sample")


def h_stream_times_delay(ctx, cfg):
  """Stream * z**-k (either side) builds a filter, not a Stream of filters."""
  from audiolazy import Stream, z, ZFilter
  N = cfg["N"]; k = cfg["k"]
  vals = ctx.reals("s", N)
  x = ctx.reals("x", N)
  src = Counting(vals)
  filt = (Stream(src) * z ** -k) if cfg["side"] == "left" else (z ** -k * Stream(src))
  ctx.prove(isinstance(filt, ZFilter), "stream-times-filter-is-filter", "type=%s" % type(filt).__name__)
  out = list(filt(list(x), zero=0))
  ctx.prove(len(out) == N, "stream-delay:length")
  for n in range(min(N, len(out))):
    ctx.prove(ctx.eq(out[n], vals[n] * x[n - k] if n - k >= 0 else 0), "stream-gain-on-delayed-input", "n=%d" % n)
  ctx.prove(src.pulled == N, "coefficient-read-once-per-output", "pulled %d for %d outputs" % (src.pulled, N))


def h_linearize_stream(ctx, cfg):
  """linearize() of a fractional delay whose coefficient is a Stream: the two integer neighbours share the coefficient
  sequence (weights 1-frac and frac), and the Stream is still read once per output."""
  from audiolazy import Stream, z
  from fractions import Fraction
  N = cfg["N"]; k = cfg["k"]          # delay k + 1/2 (dyadic: exact in floats)
  vals = ctx.reals("s", N); x = ctx.reals("x", N)
  src = Counting(vals)
  filt = (Stream(src) * z ** -(k + 0.5)).linearize()
  ctx.prove(src.pulled == 0, "no-coefficient-read-before-demand", "pulled %d by linearize()" % src.pulled)
  it_ = iter(filt(list(x), zero=0))
  out = []
  for n in range(N):
    try: out.append(next(it_))
    except StopIteration: break
    ctx.prove(src.pulled == n + 1, "coefficient-read-once-per-output", "pulled %d after %d outputs" % (src.pulled, n + 1))
  ctx.prove(len(out) == N, "linearize-stream:length", "%d outputs for %d inputs" % (len(out), N))
  half = Fraction(1, 2)
  for n in range(len(out)):
    want = vals[n] * half * (x[n - k] if n - k >= 0 else 0) + vals[n] * half * (x[n - k - 1] if n - k - 1 >= 0 else 0)
    ctx.prove(ctx.eq(out[n], want), "linearized-fractional-delay-uses-the-n-th-coefficient-value", "n=%d" % n)


def tasks(tier, seed):
  T = []
  big = tier == "thorough"
  N = 5 if big else 4
  S, Sh, Lg, P = "s%d" % N, "s%d" % (N - 1), "s%d" % (N + 2), "p2"
  specs = [
    {"num": [(0, S)], "den": [(0, "c")]},
    {"num": [(0, "c"), (1, S)], "den": [(0, "c")]},
    {"num": [(0, S), (1, Lg)], "den": [(0, "c")]},
    {"num": [(0, "c")], "den": [(0, "c"), (1, S)]},
    {"num": [(0, "c")], "den": [(0, S)]},
    {"num": [(0, "c"), (1, "c")], "den": [(0, S), (1, "c")]},
    {"num": [(0, S)], "den": [(0, Lg), (1, P)]},
    {"num": [(0, "c"), (1, Sh)], "den": [(0, "c"), (1, "c")]},
    {"num": [(0, P)], "den": [(0, "c"), (1, Sh)]},
    {"num": [(1, S)], "den": [(0, "c"), (2, S)]},
    {"num": [(0, "c")], "den": [(0, S), (1, S)]},
    {"num": [(0, "c")], "den": [(0, S), (1, "c"), (2, "c")]},
    {"num": [(0, "c"), (1, S)], "den": [(0, S), (1, S), (2, "c")]},
    {"num": [(0, "c")], "den": [(0, P), (1, S), (3, Lg)]},
  ]
  if True:
    specs += [{"num": [(0, S), (1, S), (2, S)], "den": [(0, "c")]},
              {"num": [(0, "c")], "den": [(0, S), (1, S), (2, S)]},
              {"num": [(0, S), (2, P)], "den": [(0, Sh), (1, "c"), (2, S)]}]
  for sp in specs:
    T.append(("h_tv", {"spec": sp, "N": N}))
    T.append(("h_tv", {"spec": sp, "N": N, "nzc": False}))
  T.append(("h_tv", {"spec": specs[1], "N": N, "build": "expr"}))
  T.append(("h_tv", {"spec": specs[3], "N": N, "build": "expr"}))
  for which in (["b0"], ["b1"], ["a1"], ["a0"], ["b0", "a1"], ["b1", "a0"]):
    T.append(("h_const_stream", {"which": which, "N": N}))
  C = {"num": [(0, "c"), (1, "c")], "den": [(0, "c"), (1, "c")]}
  C0 = {"num": [(0, "c")], "den": [(0, "c")]}
  TV = [{"num": [(0, S)], "den": [(0, "c")]}, {"num": [(0, "c"), (1, S)], "den": [(0, "c")]},
        {"num": [(0, "c")], "den": [(0, "c"), (1, S)]}, {"num": [(0, "c")], "den": [(0, S)]}]
  # integer powers of time-varying filters: one-term and several-term polynomials take different routes in Poly.__pow__
  for f in TV + [{"num": [(1, S)], "den": [(0, "c")]}, {"num": [(0, "c"), (1, S)], "den": [(0, "c"), (1, "c")]}]:
    for op in ("pow2", "pow3") + (("powm1", "powm2") if f["num"][0][0] == 0 else ()):
      T.append(("h_algebra", {"op": op, "f": f, "g": C0, "N": N}))
  for f in TV:
    for op in ("cmul", "mulc", "addc", "delay", "self2"):
      T.append(("h_algebra", {"op": op, "f": f, "g": C0, "N": N}))
    for op in ("add", "sub", "mul", "div"):
      T.append(("h_algebra", {"op": op, "f": f, "g": {"num": [(0, "c"), (1, "c")], "den": [(0, "c")]}, "N": N}))
      T.append(("h_algebra", {"op": op, "f": f, "g": {"num": [(0, "c"), (1, "c")], "den": [(0, "c")]}, "N": N, "nzc": False}))
      T.append(("h_algebra", {"op": op, "f": {"num": [(0, "c")], "den": [(0, "c"), (1, "c")]}, "g": f, "N": N}))
  for f in (TV[2], TV[3], {"num": [(0, "c"), (1, "c")], "den": [(0, S), (1, S)]},
            {"num": [(0, "c")], "den": [(0, "c"), (1, S), (2, P)]}):
    for op in ("samedenom", "samedenom_sub"):
      T.append(("h_algebra", {"op": op, "f": f, "g": C0, "N": N}))
  for f in TV[:3]:
    for g in TV[:3]:
      for op in ("add", "mul") + (("sub", "div") if big else ()):
        T.append(("h_algebra", {"op": op, "f": f, "g": g, "N": 3 if not big else 4}))
  for side in ("left", "right"):
    for k in (0, 1, 2):
      T.append(("h_stream_times_delay", {"side": side, "k": k, "N": N}))
  for k in (0, 1):
    T.append(("h_linearize_stream", {"k": k, "N": N}))
  return T
