"""C04 - a constant-coefficient filter computes its difference equation."""
from symrun.nums import Sym, And, Or, Not

META = {
  "functions": ["audiolazy.lazy_filters.ZFilter.__init__", "LinearFilter.__init__",
                "LinearFilter.__call__ (incl. the generated and exec'd generator)",
                "ZFilter.__call__", "Poly.__init__ (zero compaction)", "Poly.terms/values/order",
                "lazy_misc.zero_pad", "ZFilter.__truediv__/__mul__/__add__/__pow__ (z-expression build)"],
  "bounds": {
    "quick": "numerator length nb<=3, denominator length na<=3 (orders<=2), input length N<=3, "
             "sparse delays up to 4, all coefficients/samples/zero/memory symbolic reals; memory kinds "
             "None/list/longer list/tuple/generator/callable; per-query cap 20 s",
    "thorough": "nb,na<=4 (orders<=3), N<=4, plus ratio-rendered coefficients (p/q like str(Fraction))"},
  "outside": "orders above the bound, coefficient objects whose str() is not a Python expression "
             "(numpy scalars), memories shorter than the order (documented left zero padding is not "
             "part of the property), IEEE rounding (numbers are exact reals)",
  "stubs": [],
  "assumptions": ["a[0] != 0 (the property's precondition) installed before the filter is built",
                  "numbers are exact reals; float literals are read as their decimal text",
                  "symbolic coefficients reach the generated code through str() as registry references"],
}

CAPS = {"quick": {"query_s": 20, "max_paths": 6000}, "thorough": {"query_s": 60, "max_paths": 40000}}


def _build(kind, b, a, exps_b=None, exps_a=None):
  from audiolazy import ZFilter, z
  from audiolazy.lazy_filters import LinearFilter
  exps_b = exps_b or list(range(len(b)))
  exps_a = exps_a or list(range(len(a)))
  if kind == "lists":
    return ZFilter(list(b), list(a))
  if kind == "linear":
    return LinearFilter(list(b), list(a))
  if kind == "dicts":
    return ZFilter(dict(zip(exps_b, b)), dict(zip(exps_a, a)))
  if kind == "zexpr":
    num = sum((c * z ** -k for k, c in zip(exps_b, b)), 0 * z)
    den = sum((c * z ** -k for k, c in zip(exps_a, a)), 0 * z)
    return num / den
  raise ValueError(kind)


def _coefs(ctx, prefix, n, ratio):
  if not ratio:
    return ctx.reals(prefix, n)
  out = []
  for i in range(n):
    p = ctx.real("%sp%d" % (prefix, i)); q = ctx.real("%sq%d" % (prefix, i), nonzero=True)
    if ctx.mode == "concrete":
      from fractions import Fraction
      out.append(Fraction(p) / Fraction(q))
    else:
      out.append(Sym(p.n, q.n))
  return out


def h_diffeq(ctx, cfg):
  """a0*y[n] = sum b[k] x[n-k] - sum a[k] y[n-k] on the real generated code."""
  exps_b = cfg.get("exps_b") or list(range(cfg["nb"]))
  exps_a = cfg.get("exps_a") or list(range(cfg["na"]))
  N = cfg["N"]
  ratio = cfg.get("ratio", False)
  b = _coefs(ctx, "b", len(exps_b), ratio)
  a = _coefs(ctx, "a", len(exps_a), ratio)
  ctx.assume(a[0] != 0)
  x = ctx.reals("x", N)
  zero = ctx.real("zero")
  order = max(exps_a)
  memkind = cfg["mem"]
  mlen = {"none": 0, "exact": order, "longer": order + 2, "tuple": order,
          "gen": order + 1, "callable": order, "stream": order, "endless-stream": order, "iterator": order + 1}[memkind]
  mem = ctx.reals("m", mlen)
  filt = _build(cfg["build"], b, a, exps_b, exps_a)
  asked = []
  if memkind == "none": memory = None
  elif memkind in ("exact", "longer"): memory = list(mem)
  elif memkind == "tuple": memory = tuple(mem)
  elif memkind == "gen": memory = (v for v in mem)
  elif memkind == "iterator": memory = iter(list(mem))
  elif memkind in ("stream", "endless-stream"):
    # a Stream is iterable AND callable: as a memory it is data (its items), not a function of the size
    from audiolazy import Stream
    memory = Stream(list(mem)) if memkind == "stream" else Stream(list(mem)).append(Stream(7))
  else:
    def memory(size):
      asked.append(size)
      return list(mem[:size])
  seq = {"list": lambda: list(x), "gen": lambda: (v for v in x),
         "tuple": lambda: tuple(x)}[cfg.get("seq", "list")]()
  res = filt(seq, memory=memory, zero=zero)
  out = list(res)
  ctx.prove(len(out) == N, "one-output-per-input", "len(out)=%d N=%d" % (len(out), N))
  for o in out: ctx.observe("y", o)
  # independent direct-form reference
  bmap = dict(zip(exps_b, b)); amap = dict(zip(exps_a, a))
  def ymem(j):            # y[-j], j >= 1
    if memkind == "none": return zero
    return mem[j - 1] if j - 1 < len(mem) else zero
  # the property singles out the all-zero filter: it outputs the zero value itself
  allzero = all(bool(c == 0) for c in b) and all(bool(c == 0) for k, c in amap.items() if k)
  if allzero:
    for n in range(len(out)):
      ctx.prove(ctx.eq(out[n], zero), "allzero-yields-zero-value", "n=%d" % n)
    return
  for n in range(len(out)):
    acc = 0
    for k, c in bmap.items():
      acc = acc + c * (x[n - k] if n - k >= 0 else zero)
    for k, c in amap.items():
      if k == 0: continue
      acc = acc - c * (out[n - k] if n - k >= 0 else ymem(k - n))
    ctx.prove(ctx.eq(a[0] * out[n], acc), "difference-equation", "n=%d" % n)
  if memkind == "callable" and asked:
    # asked for the needed size: the largest delay with a non-zero feedback coefficient
    need = 0
    for k, c in amap.items():
      if k and bool(c != 0): need = max(need, k)
    ctx.prove(len(asked) == 1 and asked[0] == need, "callable-memory-size",
              "asked=%r need=%d" % (asked, need))


def h_noncausal(ctx, cfg):
  """Any negative delay (non-zero coefficient on a positive power of z) => ValueError."""
  from audiolazy import ZFilter
  where = cfg["where"]
  c = ctx.real("c")
  b0 = ctx.real("b0"); a1 = ctx.real("a1")
  x = ctx.reals("x", 2)
  if where == "num":
    filt = ZFilter({-cfg["k"]: c, 0: b0}, {0: 1, 1: a1})
  else:                      # denominator with a positive power of z: normalised by __init__
    filt = ZFilter({0: b0}, {-cfg["k"]: c, 0: 1, 1: a1})
  raised = False
  try:
    out = list(filt(list(x), zero=0))
  except ValueError:
    raised = True
  if where == "num":
    # c != 0 <=> a negative delay exists
    ctx.prove(Or(And(c != 0, raised), And(c == 0, not raised)), "negative-delay-valueerror",
              "raised=%s" % raised)
  else:
    # denominator z^+k: ZFilter.__init__ shifts both polynomials so the filter
    # becomes num*z^-k / (c + z^-k + a1 z^-(k+1)): causal, must not raise
    ctx.prove(not raised, "normalised-denominator-is-causal", "raised=%s" % raised)
    if bool(c != 0):
      k = cfg["k"]
      # difference equation of the shifted filter
      for n in range(len(x)):
        acc = (b0 * x[n - k] if n - k >= 0 else 0)
        acc = acc - (out[n - k] if n - k >= 0 else 0)
        acc = acc - a1 * (out[n - k - 1] if n - k - 1 >= 0 else 0)
        ctx.prove(ctx.eq(c * out[n], acc), "normalised-denominator-equation", "n=%d" % n)


def h_allzero(ctx, cfg):
  """The all-zero filter outputs the zero value once per input."""
  from audiolazy import ZFilter
  N = cfg["N"]
  x = ctx.reals("x", N)
  zero = ctx.real("zero")
  a0 = ctx.real("a0", nonzero=True)
  b = ctx.reals("b", cfg["nb"])
  for c in b: ctx.assume(c == 0)
  filt = ZFilter(list(b), [a0])
  out = list(filt(list(x), zero=zero))
  ctx.prove(len(out) == N, "allzero-length")
  for n in range(N):
    ctx.prove(ctx.eq(out[n], zero), "allzero-yields-zero-value", "n=%d" % n)


def h_repeated(ctx, cfg):
  """Calls do not influence each other: the same filter object called twice, and a second filter object of the same
  structure (same delays) with other coefficients, each with its own zero value, memory and input - every run
  satisfies its own difference equation (whatever a call may cache must not leak into the next)."""
  nb, na, N = cfg["nb"], cfg["na"], cfg["N"]
  allzero = cfg.get("allzero", False)
  def one(tag, filt, b, a):
    x = ctx.reals(tag + "x", N); zero = ctx.real(tag + "zero"); mem = ctx.reals(tag + "m", na - 1)
    out = list(filt(list(x), memory=list(mem) if cfg["mem"] else None, zero=zero))
    ctx.prove(len(out) == N, "one-output-per-input", "%s: len(out)=%d" % (tag, len(out)))
    # the property singles out the all-zero filter (it outputs the zero value itself)
    if allzero or (all(bool(c == 0) for c in b) and all(bool(c == 0) for c in a[1:])):
      for n in range(len(out)): ctx.prove(ctx.eq(out[n], zero), "allzero-yields-zero-value", "%s n=%d" % (tag, n))
      return
    for n in range(len(out)):
      acc = 0
      for k, c in enumerate(b): acc = acc + c * (x[n - k] if n - k >= 0 else zero)
      for k, c in enumerate(a):
        if k == 0: continue
        prev = out[n - k] if n - k >= 0 else ((mem[k - n - 1] if cfg["mem"] else zero))
        acc = acc - c * prev
      ctx.prove(ctx.eq(a[0] * out[n], acc), "difference-equation", "%s n=%d" % (tag, n))
  def coefs(tag):
    b = ctx.reals(tag + "b", nb); a = ctx.reals(tag + "a", na)
    ctx.assume(a[0] != 0)
    if allzero:
      for c in b + a[1:]: ctx.assume(c == 0)
    return b, a
  b1, a1 = coefs("f"); f1 = _build("lists", b1, a1)
  one("call1", f1, b1, a1)
  one("call2", f1, b1, a1)                 # the same object again, other input / zero / memory
  # another filter of the same structure (same delays) with other coefficient values: fixed small integers, so that
  # it adds no branching of its own (on the paths where f's coefficients are 2, 3, ... it is an equal filter)
  if allzero:
    b2, a2 = [0] * nb, [3] + [0] * (na - 1)
  else:
    b2, a2 = [2 + 3 * i for i in range(nb)], [7] + [5 - 2 * i for i in range(na - 1)]
  f2 = _build("lists", b2, a2)
  one("other", f2, b2, a2)
  one("call3", f1, b1, a1)


def h_exact_types(ctx, cfg):
  """Exact inputs give exact outputs: integer coefficients (their str() is an integer literal) with Fraction samples,
  memory and zero - every output is again an exact rational (not a float) and the identity holds exactly.  Concrete
  typed values (a typed-values clause); the case split is over the input length."""
  from fractions import Fraction
  b, a = cfg["b"], cfg["a"]
  N = ctx.split("N", 0, 4)
  x = [Fraction(3 * i - 4, 7) for i in range(N)]; zero = Fraction(2, 5); mem = [Fraction(1, 3 + j) for j in range(len(a) - 1)]
  filt = _build("lists", list(b), list(a))
  out = list(filt(list(x), memory=list(mem) if cfg["mem"] else None, zero=zero))
  ctx.prove(len(out) == N, "one-output-per-input")
  ctx.prove(all(isinstance(v, (Fraction, int)) and not isinstance(v, bool) for v in out), "exact-inputs-give-exact-outputs",
            "outputs of types %r" % ([type(v).__name__ for v in out],))
  for n in range(len(out)):
    acc = 0
    for k, c in enumerate(b): acc = acc + c * (x[n - k] if n - k >= 0 else zero)
    for k, c in enumerate(a):
      if k == 0: continue
      acc = acc - c * (out[n - k] if n - k >= 0 else (mem[k - n - 1] if cfg["mem"] else zero))
    ctx.prove(a[0] * out[n] == acc, "difference-equation", "exactly, n=%d: %r" % (n, out[n]))


def tasks(tier, seed):
  T = []
  for b, a in (([1], [3]), ([2, -1], [5]), ([1], [3, 1]), ([2, 1], [-7, 2, 1]), ([1, 1], [10, -3]), ([3], [1]), ([1], [-1, 2])):
    T.append(("h_exact_types", {"b": b, "a": a, "mem": len(a) > 1}))
  for nb, na, mem in ((1, 1, False), (2, 1, False), (1, 2, True), (2, 2, True)):
    T.append(("h_repeated", {"nb": nb, "na": na, "N": 2, "mem": mem}))
  for nb, na in ((1, 1), (2, 2), (0, 1)):
    T.append(("h_repeated", {"nb": nb, "na": na, "N": 2, "mem": False, "allzero": True}))
  if tier == "quick":
    shapes = [(nb, na, N) for nb in (1, 2, 3) for na in (1, 2, 3) for N in (0, 3)]
    mems = ["none", "exact"]
  else:
    shapes = [(nb, na, N) for nb in (1, 2, 3, 4) for na in (1, 2, 3, 4) for N in (0, 2, 4)]
    mems = ["none", "exact", "longer", "gen", "callable", "tuple"]
  for nb, na, N in shapes:
    for mem in mems:
      if na == 1 and mem != "none": continue
      if N == 0 and (mem != "none" or nb > 1): continue
      if tier == "thorough" and nb + na >= 7 and mem not in ("none", "exact"): continue
      T.append(("h_diffeq", {"nb": nb, "na": na, "N": N, "mem": mem, "build": "lists"}))
  # other memory / build / input kinds on a mid-size shape
  for mem in ("longer", "gen", "callable", "tuple", "stream", "endless-stream", "iterator"):
    T.append(("h_diffeq", {"nb": 2, "na": 3, "N": 3, "mem": mem, "build": "lists"}))
  for build in ("linear", "dicts", "zexpr"):
    T.append(("h_diffeq", {"nb": 2, "na": 2, "N": 3, "mem": "exact", "build": build, "seq": "gen"}))
  T.append(("h_diffeq", {"nb": 2, "na": 2, "N": 3, "mem": "none", "build": "lists", "seq": "tuple"}))
  # sparse high delays
  T.append(("h_diffeq", {"nb": 2, "na": 2, "N": 3 if tier == "quick" else 6, "mem": "exact",
                         "build": "dicts", "exps_b": [0, 4], "exps_a": [0, 3]}))
  T.append(("h_diffeq", {"nb": 2, "na": 1, "N": 4 if tier == "quick" else 6, "mem": "none",
                         "build": "dicts", "exps_b": [2, 3], "exps_a": [0]}))
  # long, sparse delay lines (feedback and feed-forward) with an explicit initial state
  T.append(("h_diffeq", {"nb": 1, "na": 2, "N": 3, "mem": "exact", "build": "dicts", "exps_b": [0], "exps_a": [0, 18]}))
  T.append(("h_diffeq", {"nb": 2, "na": 2, "N": 3, "mem": "exact", "build": "dicts", "exps_b": [0, 17], "exps_a": [0, 2]}))
  T.append(("h_diffeq", {"nb": 2, "na": 1, "N": 19, "mem": "none", "build": "dicts", "exps_b": [1, 18], "exps_a": [0]}))
  # coefficients rendered as a ratio p/q (the shape str(Fraction) has)
  T.append(("h_diffeq", {"nb": 1, "na": 1, "N": 2, "mem": "none", "build": "lists", "ratio": True},
            {"render": "ratio"}))
  T.append(("h_diffeq", {"nb": 2, "na": 2, "N": 2, "mem": "exact", "build": "lists", "ratio": True},
            {"render": "ratio"}))
  if tier == "thorough":
    T.append(("h_diffeq", {"nb": 2, "na": 3, "N": 3, "mem": "exact", "build": "lists", "ratio": True},
              {"render": "ratio"}))
  for where in ("num", "den"):
    for k in (1, 2):
      T.append(("h_noncausal", {"where": where, "k": k}))
  for nb in (0, 1, 3):
    T.append(("h_allzero", {"nb": nb, "N": 3}))
  return T
