"""C10 - LPC / Levinson-Durbin solve their normal equations and report the true error."""
from fractions import Fraction
from symrun.nums import And, Or, Not, Sym

META = {
  "functions": ["lazy_lpc.levinson_durbin (incl. the ZFilter algebra it is written in)", "lpc.kautocor", "lpc.kcovar",
                "lazy_analysis.acorr", "lazy_analysis.lag_matrix", "lazy_lpc.toeplitz", "ParCorError paths"],
  "bounds": {"quick": "autocorrelation vector r[0..p] fully symbolic for p<=3 (plus order<len(r)-1 and order>=len(r) zero "
                      "extension); data-driven: block length <=4 with symbolic samples, p<=2; acorr/lag_matrix/toeplitz: "
                      "length <=5; per-query cap 30 s",
             "thorough": "p<=3 fully symbolic as in quick; p=4 with all but one coordinate of r fixed to seeded rationals (claimed), p=5,6 "
                         "likewise (optional attempts); data-driven length <=5, p<=3"},
  "outside": "numpy strategies (lpc.nautocor / lpc.covar: numpy absent), orders above the bound, IEEE rounding",
  "stubs": [],
  "assumptions": ["paths on which the recursion divides by zero (ParCorError / ZeroDivisionError) or kcovar rejects an unstable "
                  "filter are outside the property ('when it returns') and counted as paths_outside_precondition",
                  "exact real arithmetic"],
}
CAPS = {"quick": {"query_s": 30, "max_paths": 4000, "witness_every": 1},
        "thorough": {"query_s": 120, "max_paths": 20000, "witness_every": 1}}


def _coefs(filt, n):
  t = dict(filt.numpoly.terms())
  return [t.get(j, 0) for j in range(n + 1)], t


def _check_yule_walker(ctx, filt, r, p, tag):
  a, t = _coefs(filt, p)
  ctx.prove(all(0 <= k <= p for k in t), tag + ":order-at-most-p", "powers %r" % (sorted(t),))
  ctx.prove(ctx.eq(a[0], 1), tag + ":monic")
  d = dict(filt.denpoly.terms())
  ctx.prove(len(d) == 1 and bool(ctx.eq(d.get(0, 0), 1)), tag + ":FIR (denominator 1)")
  R = lambda k: r[abs(k)] if abs(k) < len(r) else 0
  for i in range(1, p + 1):
    acc = 0
    for j in range(p + 1): acc = acc + a[j] * R(i - j)
    ctx.prove(ctx.eq(acc, 0), tag + ":normal-equations sum_j a[j] r[|i-j|] = 0", "i=%d" % i)
  err = 0
  for j in range(p + 1): err = err + a[j] * R(j)
  ctx.observe("err", filt.error)
  ctx.prove(ctx.eq(filt.error, err), tag + ":error-is-sum_j a[j] r[j]")
  return a


def _det(M):
  """determinant by cofactor expansion (independent of the code under test; sizes <= 5)"""
  if len(M) == 1: return M[0][0]
  acc = 0
  for j in range(len(M)):
    minor = [row[:j] + row[j + 1:] for row in M[1:]]
    term = M[0][j] * _det(minor)
    acc = acc + term if j % 2 == 0 else acc - term
  return acc


def h_levinson(ctx, cfg):
  from audiolazy.lazy_lpc import levinson_durbin, ParCorError
  n = cfg["n"]                               # len(r)
  r = ctx.reals("r", n)
  fixed = cfg.get("fixed") or {}
  for i, v in fixed.items():
    ctx.assume(r[int(i)] == Fraction(v))
  order = cfg.get("order")
  mine = list(r)
  try:
    filt = levinson_durbin(mine) if order is None else levinson_durbin(mine, order)
  except ZeroDivisionError as e:
    ctx.prove(isinstance(e, ParCorError), "division-by-zero-is-reported-as-ParCorError", type(e).__name__)
    # the recursion divides by the prediction errors E_0 .. E_{p-1} only; E_m = det T_{m+1} / det T_m with T_k the k x k
    # Toeplitz matrix of the lags, so a refusal is legitimate exactly when a leading minor det T_1 .. det T_p vanishes
    # (a vanishing FINAL error E_p is a perfectly good answer, not a division by zero)
    pp = n - 1 if order is None else order
    R_ = lambda k: r[abs(k)] if abs(k) < len(r) else 0
    minors = [_det([[R_(i - j) for j in range(k)] for i in range(k)]) for k in range(1, pp + 1)]
    ctx.prove(Or(*[ctx.eq(d, 0) for d in minors]) if minors else False, "refuses-only-when-the-recursion-divides-by-zero",
              "ParCorError although no prediction error E_0..E_%d vanishes" % (pp - 1))
    ctx.exclude("recursion divides by zero")
  p = n - 1 if order is None else order
  _check_yule_walker(ctx, filt, r, p, "levinson")
  # the caller's lag list is an input: a later call on the same list sees the same r (and so the same default order)
  ctx.prove(len(mine) == n and all(a is b for a, b in zip(mine, r)), "the-caller's-lag-list-is-not-modified",
            "len %d -> %d" % (n, len(mine)))


def h_tables(ctx, cfg):
  from audiolazy.lazy_analysis import acorr, lag_matrix
  from audiolazy.lazy_lpc import toeplitz
  N = cfg["N"]
  x = ctx.reals("x", N)
  for max_lag in [None] + list(range(0, N + 2)):
    got = acorr(list(x)) if max_lag is None else acorr(list(x), max_lag)
    L = (N - 1 if max_lag is None else max_lag)
    ctx.prove(len(got) == L + 1, "acorr:length", "max_lag=%r" % (max_lag,))
    for tau in range(min(L + 1, len(got))):
      acc = 0
      for k in range(N - tau): acc = acc + x[k] * x[k + tau]
      ctx.prove(ctx.eq(got[tau], acc), "acorr-is-sum_n x[n]x[n+tau]", "tau=%d" % tau)
  for max_lag in [None] + list(range(0, N)):
    if N == 0: break
    L = N - 1 if max_lag is None else max_lag
    got = lag_matrix(list(x)) if max_lag is None else lag_matrix(list(x), max_lag)
    ctx.prove(len(got) == L + 1 and all(len(row) == L + 1 for row in got), "lag_matrix:shape")
    for i in range(L + 1):
      for j in range(L + 1):
        acc = 0
        for k in range(L, N): acc = acc + x[k - i] * x[k - j]
        ctx.prove(ctx.eq(got[j][i], acc), "lag_matrix-cell-is-sum_n x[n-i]x[n-j]", "i=%d j=%d lag=%d" % (i, j, L))
  if N:
    try:
      lag_matrix(list(x), N); raised = False
    except ValueError:
      raised = True
    ctx.prove(raised, "lag_matrix-rejects-order>=len")
  T = toeplitz(list(x))
  ctx.prove(len(T) == N and all(len(row) == N for row in T), "toeplitz:shape")
  for i in range(N):
    for j in range(N):
      ctx.prove(ctx.eq(T[i][j], x[abs(i - j)]), "toeplitz-cell-is-v[|i-j|]")


def h_kautocor(ctx, cfg):
  from audiolazy import lpc
  from audiolazy.lazy_analysis import acorr
  N, p = cfg["N"], cfg["p"]
  x = ctx.reals("x", N)
  try:
    filt = lpc.kautocor(list(x), p)
  except ZeroDivisionError:
    ctx.exclude("recursion divides by zero")
  r = []
  for tau in range(p + 1):
    acc = 0
    for k in range(N - tau): acc = acc + x[k] * x[k + tau]
    r.append(acc)
  a = _check_yule_walker(ctx, filt, r, p, "kautocor")
  # error = energy of a convolved with the zero-extended block
  energy = 0
  for n_ in range(N + p):
    e = 0
    for j in range(p + 1):
      if 0 <= n_ - j < N: e = e + a[j] * x[n_ - j]
    energy = energy + e * e
  ctx.prove(ctx.eq(filt.error, energy), "kautocor:error-is-energy-of-a*x (zero-extended)")


def h_successive_calls(ctx, cfg):
  """Calls do not depend on earlier calls: the same buffer object refilled in place between two analyses, an order
  sweep over one lag list, and results of earlier calls that are kept while later calls are made."""
  from audiolazy import lpc
  from audiolazy.lazy_lpc import levinson_durbin
  kind = cfg["kind"]
  if kind == "refilled-buffer":
    N, p = cfg["N"], cfg["p"]
    x1 = ctx.reals("x", N); x2 = ctx.reals("y", N)
    buf = list(x1)
    try:
      f1 = lpc.kautocor(buf, p)
      buf[:] = list(x2)                        # the caller's frame buffer, refilled in place
      f2 = lpc.kautocor(buf, p)
    except ZeroDivisionError:
      ctx.exclude("recursion divides by zero")
    for tag, filt, x in (("first frame", f1, x1), ("second frame (same list object, new contents)", f2, x2)):
      r = []
      for tau in range(p + 1):
        acc = 0
        for k in range(N - tau): acc = acc + x[k] * x[k + tau]
        r.append(acc)
      _check_yule_walker(ctx, filt, r, p, "kautocor[%s]" % tag)
  else:                                        # kept results, orders 0..P over their own lag lists
    P = cfg["p"]
    ra = ctx.reals("r", P + 1); rb = ctx.reals("s", P + 1)
    kept = []
    try:
      for r in (ra, rb):
        for order in range(P + 1):
          kept.append((r, order, levinson_durbin(list(r), order)))
    except ZeroDivisionError:
      ctx.exclude("recursion divides by zero")
    for r, order, filt in kept:                # checked only now: a later call must not have touched an earlier result
      _check_yule_walker(ctx, filt, r, order, "levinson[kept order %d]" % order)
    ctx.prove(len({id(f) for _, _, f in kept}) == len(kept), "every-call-returns-its-own-filter")


def h_kcovar(ctx, cfg):
  from audiolazy import lpc
  N, p = cfg["N"], cfg["p"]
  x = ctx.reals("x", N)
  try:
    filt = lpc.kcovar(list(x), p)
  except ZeroDivisionError:
    ctx.exclude("division by zero in the recursion")
  except ValueError:
    ctx.exclude("kcovar rejects an unstable filter")
  a, t = _coefs(filt, p)
  ctx.prove(ctx.eq(a[0], 1), "kcovar:monic")
  phi = [[None] * (p + 1) for _ in range(p + 1)]
  for i in range(p + 1):
    for j in range(p + 1):
      acc = 0
      for k in range(p, N): acc = acc + x[k - i] * x[k - j]
      phi[i][j] = acc
  for i in range(1, p + 1):
    acc = 0
    for j in range(p + 1): acc = acc + a[j] * phi[i][j]
    ctx.prove(ctx.eq(acc, 0), "kcovar:covariance-normal-equations", "i=%d" % i)
  energy = 0
  for n_ in range(p, N):
    e = 0
    for j in range(p + 1): e = e + a[j] * x[n_ - j]
    energy = energy + e * e
  ctx.observe("err", filt.error)
  ctx.prove(ctx.eq(filt.error, energy), "kcovar:error-is-residual-energy-over-n>=p")


def _successive(big):
  return [("h_successive_calls", {"kind": "refilled-buffer", "N": 3, "p": 1}),
          ("h_successive_calls", {"kind": "refilled-buffer", "N": 3 if not big else 4, "p": 2}, {"optional": False, "task_s": 600}),
          ("h_successive_calls", {"kind": "kept", "p": 1}),
          ("h_successive_calls", {"kind": "kept", "p": 0})]


def tasks(tier, seed):
  import random
  big = tier == "thorough"
  T = _successive(big)
  for n in (1, 2, 3, 4):
    T.append(("h_levinson", {"n": n}))
  # explicit order below / above len(r)-1 (zero extension)
  for n, order in ((3, 1), (4, 2), (2, 2), (2, 3), (3, 3), (1, 2), (1, 3), (4, 3)):
    T.append(("h_levinson", {"n": n, "order": order}))
  if big:
    # p >= 4: fully symbolic r is out of reach (probe: `unknown` at 20 s/query already for p = 4; degree blow-up), so
    # all but ONE coordinate of r are fixed to seeded rationals (declared partial concretisation)
    rng = random.Random(77 + seed)
    for n in (5, 6, 7):
      for rep in range(3):
        free = rng.sample(range(n), 1)
        fixed = {}
        r0 = rng.randint(4, 9)
        for i in range(n):
          if i not in free: fixed[str(i)] = str(Fraction(r0 if i == 0 else rng.randint(-3, 3), 1 if i == 0 else rng.randint(1, 3)))
        T.append(("h_levinson", {"n": n, "fixed": fixed}, {"optional": n >= 6, "task_s": 900 if n == 5 else 400, "path_s": 300}))
  for N in ((0, 1, 3, 4) if not big else (0, 1, 3, 5)):
    T.append(("h_tables", {"N": N}))
  for N, p in ((2, 1), (3, 1), (3, 2), (4, 2), (4, 1)) + (((5, 2), (4, 3), (5, 3)) if big else ()):
    # p >= 3 or N >= 5: degree blow-up (queries hit the 120 s cap on a loaded machine) - attempted, reported, not claimed
    T.append(("h_kautocor", {"N": N, "p": p}, {"optional": True, "task_s": 900, "path_s": 400} if p >= 3 or N >= 5 else {}))
  for N, p in ((2, 1), (3, 1), (4, 1), (3, 2), (4, 2)) + (((5, 2), (5, 3)) if big else ()):
    T.append(("h_kcovar", {"N": N, "p": p}, {"optional": N >= 5, "task_s": 600} if N >= 5 else {}))
  return T
