"""C20 - sample-wise analysis tools equal their defining formulas."""
from fractions import Fraction
from symrun.nums import And, Or, Not, Sym, ExactInt
from props.C05 import ref_filter

META = {
  "functions": ["maverage.deque/recursive/fir", "accumulate.accumulate/func/z", "amdf", "envelope.rms/abs/squared",
                "clip", "zcross", "unwrap", "lowpass (default strategy, coefficients read off the returned filter)"],
  "bounds": {"quick": "inputs of length 0..5 with symbolic real samples, window sizes 1..4, lags 1..3, symbolic zero value, "
                      "symbolic clip limits (and None kinds), symbolic hysteresis>=0 and first_sign, unwrap with symbolic "
                      "max_delta>0 and step from {1, 2, 5/2, 2*3.14159...(float)}",
             "thorough": "length 0..8, sizes 1..6, lags 1..4"},
  "outside": "IEEE rounding: 1./size is the double the code computes (read as its decimal text), so agreement with the true "
             "mean is claimed exactly only for power-of-two sizes and up to that constant otherwise; symbolic unwrap step",
  "stubs": ["sqrt (envelope.rms '** .5'): fresh r>=0 with r*r == x"],
  "assumptions": ["hysteresis >= 0", "unwrap: step > 0 and max_delta > 0", "exact real arithmetic"],
}
CAPS = {"quick": {"query_s": 20, "max_paths": 30000, "witness_every": 3},
        "thorough": {"query_s": 60, "max_paths": 300000, "witness_every": 9}}


def _ff(x):
  from symrun.nums import frac_of_float
  return frac_of_float(x)


def _inv(size):
  """1./size as the code computes it (a double, read as its decimal text)."""
  from symrun.nums import frac_of_float
  return frac_of_float(1. / size)


def h_maverage(ctx, cfg):
  from audiolazy import maverage
  N, size = cfg["N"], cfg["size"]
  x = ctx.reals("x", N); zero = ctx.real("zero")
  outs = {}
  for name in ("deque", "recursive", "fir"):
    outs[name] = list(maverage[name](size)(list(x) if name != "fir" else iter(list(x)), zero=zero))
    ctx.prove(len(outs[name]) == N, "one-output-per-input", name)
  inv = _inv(size)
  for n in range(N):
    acc = 0
    for k in range(size):
      acc = acc + (x[n - k] if n - k >= 0 else zero)
    want = acc * inv
    for name in outs:
      if n < len(outs[name]):
        ctx.observe(name, outs[name][n])
        ctx.prove(ctx.eq(outs[name][n], want), "maverage-is-mean-of-last-size-samples", "%s n=%d size=%d" % (name, n, size))
  if size & (size - 1) == 0:
    ctx.prove(inv == Fraction(1, size), "power-of-two-size-is-exact")


def h_shared_tool(ctx, cfg):
  """One tool object (maverage(size), amdf(lag, size)) applied to two signals whose outputs are consumed interleaved
  (as in tool(left) + tool(right)): each output stream is the formula of its own input."""
  from audiolazy import maverage, amdf
  N, size = cfg["N"], cfg["size"]
  xa = ctx.reals("xa", N); xb = ctx.reals("xb", N); za = ctx.real("za"); zb = ctx.real("zb")
  tool = cfg["tool"]
  obj = amdf(1, size) if tool == "amdf" else maverage[tool](size)
  sa = iter(obj(list(xa), zero=za)); sb = iter(obj(iter(list(xb)), zero=zb))
  oa, ob = [], []
  order = cfg["order"]                      # which stream yields at each step
  for who in order:
    try: (oa if who == "a" else ob).append(next(sa if who == "a" else sb))
    except StopIteration: pass
  oa.extend(sa); ob.extend(sb)
  inv = _inv(size)
  for tag, x, zero, out in (("first", xa, za, oa), ("second", xb, zb, ob)):
    ctx.prove(len(out) == N, "one-output-per-input", "%s stream of a shared %s" % (tag, tool))
    for n in range(min(N, len(out))):
      acc = 0
      for k in range(size):
        if tool == "amdf":
          cur = x[n - k] if n - k >= 0 else zero
          prev = x[n - k - 1] if n - k - 1 >= 0 else zero
          acc = acc + (abs(cur - prev) if n - k >= 0 else zero)
        else:
          acc = acc + (x[n - k] if n - k >= 0 else zero)
      ctx.prove(ctx.eq(out[n], acc * inv), "streams-of-one-tool-object-are-independent", "%s stream, n=%d (%s size %d)" % (tag, n, tool, size))


def h_accumulate_floats(ctx, cfg):
  """IEEE values the exact-real encoding cannot hold (infinities, overflow to inf): every strategy is still the running
  sum a plain `+` loop gives.  Concrete data (a typed-values clause, like C01's), the case split is over the prefix length."""
  from audiolazy import lazy_itertools as lit
  INF = float("inf")
  data = {"inf": [1., 2., INF, 3., 4.], "-inf": [1., -INF, 5., 2.], "overflow": [1e308, 1e308, 3., -1e308],
          "ints": [1, 2 ** 70, -3, 5]}[cfg["data"]]
  n = ctx.split("len", 0, len(data))
  x = data[:n]
  want, acc = [], None
  for v in x:
    acc = v if acc is None else acc + v
    want.append(acc)
  same = lambda a, b: type(a) is type(b) and (a == b or (a != a and b != b))
  for name in ("accumulate", "func", "z"):
    if name == "z":
      if cfg["data"] == "ints": continue           # the filter strategy works in floats
      out = list(lit.accumulate.z(list(x), zero=0.))
    else:
      out = list(lit.accumulate[name](iter(list(x))))
    ctx.prove(len(out) == len(want) and all(same(a, b) for a, b in zip(out, want)), "accumulate-is-running-sum",
              "%s on %r: got %r want %r" % (name, x, out, want))


def h_accumulate(ctx, cfg):
  from audiolazy import lazy_itertools as lit
  N = cfg["N"]
  x = ctx.reals("x", N)
  for name in ("accumulate", "func", "z"):
    if name == "z":
      out = list(lit.accumulate.z(list(x), zero=0))
    else:
      out = list(lit.accumulate[name](iter(list(x))))
    ctx.prove(len(out) == N, "accumulate:one-output-per-input", "%s len=%d" % (name, len(out)))
    acc = 0
    for n in range(min(N, len(out))):
      acc = acc + x[n]
      ctx.prove(ctx.eq(out[n], acc), "accumulate-is-running-sum", "%s n=%d" % (name, n))


def h_amdf(ctx, cfg):
  from audiolazy import amdf
  N, size, lag = cfg["N"], cfg["size"], cfg["lag"]
  x = ctx.reals("x", N); zero = ctx.real("zero") if cfg.get("symzero") else 0
  out = list(amdf(lag, size=size)(list(x), zero=zero))
  ctx.prove(len(out) == N, "amdf:one-output-per-input")
  inv = _inv(size)
  d = []
  for n in range(N):
    v = x[n] - (x[n - lag] if n - lag >= 0 else zero)
    d.append(abs(v))
  for n in range(min(N, len(out))):
    acc = 0
    for k in range(size):
      acc = acc + (d[n - k] if n - k >= 0 else zero)
    ctx.observe("amdf", out[n])
    ctx.prove(ctx.eq(out[n], acc * inv), "amdf-is-moving-average-of-|x[n]-x[n-lag]|", "n=%d" % n)


def h_envelope(ctx, cfg):
  from audiolazy import envelope, lowpass
  from symrun.stubs import SqrtStub
  N = cfg["N"]; cutoff = cfg["cutoff"]
  x = ctx.reals("x", N)
  lp = lowpass(cutoff)
  b = dict(enumerate(_ff(float(c)) for c in lp.numerator))
  a = dict(enumerate(_ff(float(c)) for c in lp.denominator))
  name = cfg["name"]
  if ctx.mode == "sym":
    ctx.sqrt_hook = SqrtStub()
  out = list(envelope[name](list(x), cutoff=cutoff))
  ctx.prove(len(out) == N, "envelope:one-output-per-input")
  if name == "abs":
    want = ref_filter(b, a, [abs(v) for v in x])
    for n in range(min(N, len(out))):
      ctx.prove(ctx.eq(out[n], want[n]), "envelope.abs-is-lowpass-of-|x|", "n=%d" % n)
  else:
    want = ref_filter(b, a, [v * v for v in x])
    for n in range(min(N, len(out))):
      if name == "squared":
        ctx.prove(ctx.eq(out[n], want[n]), "envelope.squared-is-lowpass-of-x^2", "n=%d" % n)
      else:
        ctx.prove(And(ctx.eq(out[n] * out[n], want[n]), ctx.le(0, out[n])), "envelope.rms-is-sqrt-of-lowpass-of-x^2", "n=%d" % n)


def h_clip(ctx, cfg):
  from audiolazy import clip, Stream
  N = cfg["N"]
  x = ctx.reals("x", N)
  kind = cfg["limits"]
  low = None if kind in ("nolow", "none") else ctx.real("low")
  high = None if kind in ("nohigh", "none") else ctx.real("high")
  if kind == "default":
    out = list(clip(list(x))); low, high = -1, 1
    out2 = list(clip(list(out)))
  else:
    if low is not None and high is not None:
      if bool(high < low):
        try:
          clip(list(x), low, high); raised = False
        except ValueError:
          raised = True
        ctx.prove(raised, "clip-rejects-high<low")
        return
    out = list(clip(list(x), low, high) if cfg.get("positional", True) else clip(iter(list(x)), low=low, high=high))
    out2 = list(clip(list(out), low, high))
  ctx.prove(len(out) == N, "clip:one-output-per-input")
  for n in range(min(N, len(out))):
    ctx.observe("clip", out[n])
    conds = []
    if low is not None: conds.append(out[n] >= low)
    if high is not None: conds.append(out[n] <= high)
    ctx.prove(And(*conds) if conds else True, "clip-bounds-every-sample", "n=%d" % n)
    inside = And(*([x[n] >= low] if low is not None else []) + ([x[n] <= high] if high is not None else [])) \
             if (low is not None or high is not None) else True
    # inside the limits the sample is untouched; outside it saturates to the violated limit
    want_cases = [And(inside, ctx.eq(out[n], x[n]))]
    if low is not None: want_cases.append(And(x[n] < low, ctx.eq(out[n], low)))
    if high is not None: want_cases.append(And(x[n] > high, ctx.eq(out[n], high)))
    ctx.prove(Or(*want_cases), "clip-saturates", "n=%d" % n)
    ctx.prove(ctx.eq(out2[n], out[n]), "clip-idempotent", "n=%d" % n)


def _sign(v):
  return -1 if bool(v < 0) else 1


def h_zcross(ctx, cfg):
  from audiolazy import zcross
  N = cfg["N"]
  x = ctx.reals("x", N)
  h = ctx.real("h", 0, None) if cfg["hyst"] == "sym" else cfg["hyst"]
  fs_kind = cfg["first_sign"]
  kw = {}
  if cfg["hyst"] != "default": kw["hysteresis"] = h
  else: h = 0
  if fs_kind == "sym":
    fs = ctx.real("fs"); kw["first_sign"] = fs
  elif fs_kind == "default": fs = 0
  else: fs = fs_kind; kw["first_sign"] = fs
  out = list(zcross(list(x), **kw))
  ctx.prove(len(out) == N, "zcross:one-output-per-input", "len=%d" % len(out))
  # state machine of the property statement
  s = 0 if bool(fs == 0) else _sign(fs)
  for n in range(min(N, len(out))):
    el = x[n]
    if s == 0:
      want = 0
      if bool(el > h) or bool(el < -h): s = _sign(el)
    else:
      beyond_opposite = bool(el < -h) if s > 0 else bool(el > h)
      if beyond_opposite:
        want = 1; s = -s
      else:
        want = 0
    ctx.observe("zc", out[n])
    ctx.prove(out[n] == want, "zcross-state-machine", "n=%d got %r want %r" % (n, out[n], want))


def h_unwrap(ctx, cfg):
  from audiolazy import unwrap
  N = cfg["N"]
  x = ctx.reals("x", N, lo=-cfg["R"], hi=cfg["R"])
  step = cfg["step"]
  md = ctx.real("md", 0, None, lo_open=True) if cfg["md"] == "sym" else cfg["md"]
  kw = {}
  if cfg["md"] != "default": kw["max_delta"] = md
  if step != "default": kw["step"] = step
  if cfg["md"] == "default":
    import math; md = _ff(math.pi)
  if step == "default":
    import math; step = _ff(2 * math.pi)
  step = _ff(step) if isinstance(step, float) else Fraction(step)
  out = list(unwrap(list(x), **kw))
  ctx.prove(len(out) == N, "unwrap:one-output-per-input")
  half = step / 2
  nojump = True
  for n in range(min(N, len(out))):
    ctx.observe("uw", out[n])
    ctx.prove(ctx.is_int((out[n] - x[n]) / step), "unwrap-changes-by-multiples-of-step", "n=%d" % n)
    if n:
      nojump = And(nojump, ctx.le(abs(x[n] - x[n - 1]), md))
      bound = md if bool(md >= half) else half
      ctx.prove(ctx.le(abs(out[n] - out[n - 1]), bound), "unwrap-leaves-no-jump-above-max(max_delta,step/2)", "n=%d" % n)
    else:
      ctx.prove(ctx.eq(out[0], x[0]), "unwrap-first-sample-untouched")
  # untouched when no input jump exceeds max_delta
  same = And(*[ctx.eq(out[n], x[n]) for n in range(min(N, len(out)))]) if N else True
  ctx.prove(Or(Not(nojump), same), "unwrap-identity-without-jumps")


def _shared_tasks(big):
  T = []
  for tool in ("deque", "recursive", "fir", "amdf"):
    for size in (2, 3):
      for order in ("abab", "aabb", "baab"):
        if tool == "amdf" and (size == 3 or order != "abab") and not big: continue
        T.append(("h_shared_tool", {"tool": tool, "size": size, "N": 3, "order": order}))
  return T


def tasks(tier, seed):
  big = tier == "thorough"
  T = _shared_tasks(big)
  NS = (0, 3, 6) if not big else (0, 2, 5, 8)
  for N in NS:
    for size in ((1, 2, 3, 4, 5) if not big else (1, 2, 3, 4, 6, 8)):
      if N == 0 and size > 1: continue
      T.append(("h_maverage", {"N": N, "size": size}))
    T.append(("h_accumulate", {"N": N}))
  for d in ("inf", "-inf", "overflow", "ints"):
    T.append(("h_accumulate_floats", {"data": d}))
  for N in ((4,) if not big else (4, 6)):
    for size in (1, 2, 3):
      for lag in ((1, 2, 3) if not big else (1, 2, 3, 4)):
        T.append(("h_amdf", {"N": N, "size": size, "lag": lag}))
    T.append(("h_amdf", {"N": 3, "size": 2, "lag": 1, "symzero": True}))
  for name in ("abs", "squared", "rms"):
    for cutoff in (0.5, 0.0061359):
      T.append(("h_envelope", {"name": name, "N": 3 if name == "rms" else (4 if not big else 5), "cutoff": cutoff}))
  for lim in ("both", "nolow", "nohigh", "none", "default"):
    T.append(("h_clip", {"N": 3 if not big else 4, "limits": lim}))
  T.append(("h_clip", {"N": 2, "limits": "both", "positional": False}))
  for hyst in ("sym", "default", 0):
    for fs in ("sym", "default", -1, 1):
      T.append(("h_zcross", {"N": (4 if hyst == "sym" and fs == "sym" else 5) if not big else 6, "hyst": hyst, "first_sign": fs}))
  for step in (1, 2, 2.5, "default"):
    for md in ("sym", "default") if step != "default" else ("default",):
      if md == "default" and step != "default" and step < 4:
        continue
      T.append(("h_unwrap", {"N": 3 if not big else 4, "step": step, "md": md, "R": 4 if step != "default" else 8}))
  # only `step` given: max_delta keeps its documented default (pi), whatever the step
  for step in (1, 4, 5):
    T.append(("h_unwrap", {"N": 3, "step": step, "md": "default", "R": 4}))
  T.append(("h_unwrap", {"N": 0, "step": 2, "md": "sym", "R": 4}))
  T.append(("h_unwrap", {"N": 3, "step": 5, "md": 2, "R": 6}))
  T.append(("h_unwrap", {"N": 3, "step": 3, "md": 1, "R": 5}))
  return T
