"""C11 - PARCOR step-down inverts Levinson and decides stability correctly."""
from fractions import Fraction
from symrun.nums import And, Or, Not, Sym
from props.C07 import _rmul, _radd, _rscale

META = {
  "functions": ["lazy_lpc.parcor", "lazy_lpc.parcor_stable", "lazy_lpc.levinson_durbin", "ZFilter algebra underneath "
                "(__call__(1/z), __sub__, __truediv__, __add__)"],
  "bounds": {"quick": "reflection coefficients k_1..k_p symbolic in (-1,1) for p<=3 (zeros allowed below the top one); "
                      "parcor(levinson_durbin(r)) for symbolic r with p<=2; stability: denominators g*prod(1-rho_i z^-1)*prod(1-2 re z^-1+"
                      "(re^2+im^2) z^-2) with symbolic gain g!=0, symbolic real roots / conjugate pairs, order<=2; order 3 as one symbolic "
                      "factor times factors from a table of rational roots inside/on/outside the unit circle",
             "thorough": "p<=3 claimed (p=4 attempted, optional: degree blow-up), parcor(levinson_durbin(r)) p<=3 (p=3 optional), order-3 "
                         "stability fully symbolic attempted under a 120 s cap (optional), order 4 as two symbolic real roots times "
                         "two table roots (optional)"},
  "outside": "orders above the bound, filters with feedback passed to parcor (ValueError by design), IEEE rounding",
  "stubs": [],
  "assumptions": ["exact real arithmetic", "stability of a real polynomial is stated on its real roots and conjugate pairs by construction"],
}
CAPS = {"quick": {"query_s": 30, "max_paths": 6000, "witness_every": 1},
        "thorough": {"query_s": 120, "max_paths": 30000, "witness_every": 1}}


def step_up(ks):
  """A_0 = 1; a_m[i] = a_{m-1}[i] + k_m a_{m-1}[m-i]"""
  a = [1]
  for m, k in enumerate(ks, 1):
    prev = a + [0]
    a = [prev[i] + k * prev[m - i] for i in range(m + 1)]
  return a


def h_stepdown(ctx, cfg):
  from audiolazy import ZFilter
  from audiolazy.lazy_lpc import parcor, ParCorError
  p = cfg["p"]
  ks = [ctx.real("k%d" % m, -1, 1, lo_open=True, hi_open=True) for m in range(1, p + 1)]
  ctx.assume(ks[-1] != 0)                       # the order is the highest non-zero coefficient
  for i in cfg.get("zeros", []): ctx.assume(ks[i] == 0)
  a = step_up(ks)
  g = ctx.real("g", nonzero=True) if cfg.get("gain") else 1
  filt = ZFilter([c for c in a]) if g is 1 else ZFilter([c for c in a], [g])   # a constant denominator is normalised away
  if g is not 1: filt = ZFilter([c * g for c in a], [g])
  try:
    got = list(parcor(filt))
  except ParCorError:
    ctx.prove(False, "no-ParCorError-when-all-|k|<1")
    return
  ctx.prove(len(got) == p, "one-coefficient-per-order", "got %d, order %d" % (len(got), p))
  for i, gk in enumerate(got):
    ctx.observe("k", gk)
    ctx.prove(ctx.eq(gk, ks[p - 1 - i]), "parcor-yields-the-reflection-coefficients-last-first", "i=%d" % i)
  # rebuilding the filter from what parcor returned gives the same filter
  rebuilt = step_up(list(reversed(got)))
  ctx.prove(len(rebuilt) == len(a) and And(*[ctx.eq(x, y) for x, y in zip(rebuilt, a)]), "step-up-of-the-result-returns-the-filter")


def h_critical(ctx, cfg):
  """ParCorError exactly when some |k_m| equals 1 during the step-down."""
  from audiolazy import ZFilter
  from audiolazy.lazy_lpc import parcor, ParCorError
  p = cfg["p"]; crit = cfg["crit"]                 # index of the coefficient that may be critical
  ks = [ctx.real("k%d" % m, -2, 2) for m in range(1, p + 1)]
  ctx.assume(ks[-1] != 0)
  for i, k in enumerate(ks):
    if i != crit: ctx.assume(And(k > -1, k < 1))
  a = step_up(ks)
  # the step-down divides by 1-k_m^2 for every coefficient it meets, from the top down to k_1
  try:
    got = list(parcor(ZFilter(list(a))))
    raised = False
  except ParCorError:
    raised = True
  kc = ks[crit]
  is_crit = Or(kc == 1, kc == -1)
  ctx.prove(Or(And(is_crit, raised), And(Not(is_crit), not raised)), "ParCorError-iff-some-|k|=1-during-step-down",
            "raised=%s" % raised)
  if not raised:
    ctx.prove(len(got) == p and And(*[ctx.eq(gk, ks[p - 1 - i]) for i, gk in enumerate(got)]), "coefficients-also-outside-(-1,1)")


def h_levinson_parcor(ctx, cfg):
  from audiolazy.lazy_lpc import levinson_durbin, parcor
  p = cfg["p"]
  n = cfg.get("n", p + 1)                     # lags given; the order asked for may be >= n (zero extension)
  given = ctx.reals("r", n)
  r = (list(given) + [0] * (p + 1 - n))[:p + 1]
  # reference Levinson recursion
  a = [1]; E = r[0]; ks = []
  try:
    for m in range(1, p + 1):
      acc = 0
      for j in range(m): acc = acc + a[j] * r[m - j]
      k = -acc / E
      ks.append(k)
      prev = a + [0]
      a = [prev[i] + k * prev[m - i] for i in range(m + 1)]
      E = E * (1 - k * k)
      if m < p and bool(E == 0): ctx.exclude("vanishing prediction error")
  except ZeroDivisionError:
    ctx.exclude("reference recursion divides by zero")
  if p and bool(ks[-1] == 0): ctx.exclude("order is lower than p")
  for k in ks[1:]:
    if bool(Or(k == 1, k == -1)): ctx.exclude("critical reflection coefficient")
  try:
    filt = levinson_durbin(list(r)) if n == p + 1 else levinson_durbin(list(given), p)
    got = list(parcor(filt))
  except ZeroDivisionError:
    ctx.exclude("recursion divides by zero")
  ctx.prove(len(got) == p, "parcor(levinson_durbin(r)):length", "got %d" % len(got))
  for i, gk in enumerate(got):
    ctx.prove(ctx.eq(gk, ks[p - 1 - i]), "parcor(levinson_durbin(r))-are-the-recursion's-k_m-last-first", "i=%d" % i)
  prod = r[0]
  for k in ks: prod = prod * (1 - k * k)
  ctx.prove(ctx.eq(filt.error, prod), "error-is-r0*prod(1-k_m^2)")


TABLE = [("0", True), ("1/2", True), ("-3/4", True), ("1", False), ("-1", False), ("3/2", False), ("-2", False)]
PAIRS = [(("0", "1/2"), True), (("1/2", "1/2"), True), (("0", "1"), False), (("3/5", "4/5"), False), (("1", "1"), False),
         (("-1/2", "3/4"), True)]


def h_stable(ctx, cfg):
  from audiolazy import ZFilter
  from audiolazy.lazy_lpc import parcor_stable
  den = {0: 1}
  conds = []
  for i in range(cfg.get("real", 0)):
    rho = ctx.real("rho%d" % i, -3, 3)
    den = _rmul(den, {0: 1, 1: -rho})
    conds.append(And(rho > -1, rho < 1))
  for i in range(cfg.get("pairs", 0)):
    re = ctx.real("re%d" % i, -2, 2); im = ctx.real("im%d" % i, -2, 2)
    ctx.assume(im != 0)
    den = _rmul(den, {0: 1, 1: -2 * re, 2: re * re + im * im})
    conds.append(re * re + im * im < 1)
  for v in cfg.get("troots", []):
    rho = Fraction(v)
    den = _rmul(den, {0: 1, 1: -rho})
    conds.append(abs(rho) < 1)
  for (re, im) in cfg.get("tpairs", []):
    re, im = Fraction(re), Fraction(im)
    den = _rmul(den, {0: 1, 1: -2 * re, 2: re * re + im * im})
    conds.append(re * re + im * im < 1)
  g = ctx.real("g", nonzero=True)
  num = {0: ctx.real("b0", nonzero=True), 1: ctx.real("b1")} if cfg.get("num") else {0: 1}
  filt = ZFilter(dict(num), {k: v * g for k, v in den.items()})
  verdict = parcor_stable(filt)
  ctx.prove(isinstance(verdict, bool), "parcor_stable-returns-a-bool", type(verdict).__name__)
  stable = And(*conds) if conds else True
  ctx.prove(stable if verdict else Not(stable), "parcor_stable-iff-all-poles-strictly-inside-the-unit-circle",
            "verdict=%s" % verdict)


# ---------------------------------------------------------------------------------------------
# IEEE-754 leg (symrun/fpconc.py): verdicts that hinge on one rounding error
# ---------------------------------------------------------------------------------------------
def _fp_cases(tier):
  """(name, inputs, constraints, seeds, builder(values) -> denominator coefficient list, expected verdict)
  Critical filters (a pole exactly ON the unit circle) whose coefficients are short dyadic numbers: every product and sum
  the step-down recursion needs is exactly representable, so in binary64 - as over the reals - a reflection coefficient
  of magnitude exactly one must come out and the verdict must be False."""
  from symrun import fpconc
  cases = []
  k, ck = fpconc.dyadic("k", 6 if tier == "quick" else 8, -6 if tier == "quick" else -8, -1)
  # (1 - z^-1)(1 - k z^-1) = 1 - (1+k) z^-1 + k z^-2   and   (1 + z^-1)(1 - k z^-1) = 1 + (1-k) z^-1 - k z^-2
  cases.append(("pole-at-z=1,second-order", {"k": k}, ck, [{"k": 0.5}, {"k": -0.75}],
                lambda a: [1.0, -(1.0 + a["k"]), a["k"]], False))
  cases.append(("pole-at-z=-1,second-order", {"k": k}, ck, [{"k": 0.5}, {"k": -0.25}],
                lambda a: [1.0, 1.0 - a["k"], -a["k"]], False))
  # a non-unit leading coefficient c (an integer up to 255): c - c z^-1, c + c z^-2
  c, cc = fpconc.dyadic("c", 8, 0, 7)
  cases.append(("gain-times-(1 - z^-1)", {"c": c}, cc, [{"c": 3.0}, {"c": -10.0}], lambda a: [a["c"], -a["c"]], False))
  cases.append(("gain-times-(1 + z^-2)", {"c": c}, cc, [{"c": 7.0}], lambda a: [a["c"], 0.0, a["c"]], False))
  return cases


def _fp_run(den_of, values, native=False):
  from audiolazy import ZFilter
  from audiolazy.lazy_lpc import parcor_stable
  den = den_of(values)
  return parcor_stable(ZFilter([1.0], list(den)))


def _fp_case(args):
  tier, idx, repo = args[:3]
  procs = args[3] if len(args) > 3 else 8
  import sys
  if repo not in sys.path: sys.path.insert(0, repo)
  from symrun import fpconc
  name, inputs, cons, seeds, den_of, expected = _fp_cases(tier)[idx]
  def check(result, vals):
    return None if result is expected else "parcor_stable gave %r, the filter is critical (expected %r)" % (result, expected)
  r = fpconc.explore(lambda a: _fp_run(den_of, a), inputs, cons, seeds, check, query_s=60 if tier == "quick" else 600,
                     max_runs=6 if tier == "quick" else 30, procs=procs)
  # native replay of every candidate: plain floats, no proxies
  confirmed = []
  for v in r["violations"]:
    got = _fp_run(den_of, v["inputs"], native=True)
    if got is not expected: confirmed.append(dict(v, native_result=repr(got)))
    else: r["inconclusive"].append({"clause": "engine", "why": "binary64 counterexample did not reproduce natively", "inputs": v["inputs"]})
  r["violations"] = confirmed
  r["name"] = name
  return r


def extra(tier, repo):
  """-> dict(violations, inconclusive, coverage) merged into the report by symrun.cli"""
  # the cases run one after the other; the branch negations of each path are solved side by side (16 processes)
  idxs = list(range(len(_fp_cases(tier)))) if tier != "quick" else [0, 2]
  rs = [_fp_case((tier, i, repo, 16)) for i in idxs]
  res = {"violations": [], "inconclusive": [], "coverage": {}}
  cov = {"cases": [], "queries": {"sat": 0, "unsat": 0, "unknown": 0}, "paths": 0, "solver_time_s": 0.0,
         "engine": "concolic execution of parcor_stable / parcor / ZFilter algebra on binary64 proxies; branch negations decided "
                   "by z3 QF_FP (round to nearest even); input classes: dyadic numbers with <= 7-8 significant bits",
         "assumptions": ["x ** 2 is one correctly rounded multiplication (checked against the platform's pow on every run)"]}
  for r in rs:
    for k in cov["queries"]: cov["queries"][k] += r["queries"][k]
    cov["paths"] += r["paths"]; cov["solver_time_s"] = round(cov["solver_time_s"] + r["solver_s"], 1)
    cov["cases"].append({"case": r["name"], "paths": r["paths"], "queries": r["queries"], "runs": r["runs"][:6]})
    for v in r["violations"]:
      res["violations"].append({"harness": "fp:" + r["name"], "cfg": {"case": r["name"]}, "clause": "critical-filter-is-not-stable(binary64)",
                                "detail": "%s for inputs %r (native: %s)" % (v["what"], v["inputs"], v["native_result"]),
                                "model": {k: repr(x) for k, x in v["inputs"].items()}, "what": v["what"]})
    for i in r["inconclusive"]:
      res["inconclusive"].append(dict(i, clause="fp:" + r["name"]))
  res["coverage"] = {"binary64_leg": cov}
  return res


def replay_extra(rp):
  """./check C11 --replay <file> for a binary64 counterexample: plain floats on the real code"""
  name = (rp.get("cfg") or {}).get("case")
  for tier in ("quick", "thorough"):
    for case in _fp_cases(tier):
      if case[0] == name:
        vals = {k: float(v) for k, v in (rp.get("model") or {}).items()}
        return _fp_run(case[4], vals, native=True) is not case[5]
  return False


def tasks(tier, seed):
  big = tier == "thorough"
  T = []
  for p in ((1, 2, 3) if not big else (1, 2, 3, 4)):
    opt = {"optional": True, "task_s": 600} if p >= 4 else {}       # p = 4: degree blow-up, attempted only
    T.append(("h_stepdown", {"p": p}, opt))
    T.append(("h_stepdown", {"p": p, "gain": True}, opt))
    for zi in range(p - 1):
      T.append(("h_stepdown", {"p": p, "zeros": [zi]}, opt))
    if p >= 3: T.append(("h_stepdown", {"p": p, "zeros": list(range(p - 1))}, opt))
    for crit in range(p):
      if p <= 3: T.append(("h_critical", {"p": p, "crit": crit}))
  for p in ((1, 2) if not big else (1, 2, 3)):
    T.append(("h_levinson_parcor", {"p": p}, {"optional": p >= 3}))
  T.append(("h_levinson_parcor", {"p": 2, "n": 2}))       # order == len(lags): zero extension
  T.append(("h_levinson_parcor", {"p": 0}))               # order 0: no reflection coefficient, error = r[0]
  T.append(("h_levinson_parcor", {"p": 0, "n": 2}))       # ... asked for explicitly on a longer lag list
  if big: T.append(("h_levinson_parcor", {"p": 3, "n": 2}, {"optional": True}))
  for real, pairs in ((1, 0), (2, 0), (0, 1)):
    T.append(("h_stable", {"real": real, "pairs": pairs}))
    T.append(("h_stable", {"real": real, "pairs": pairs, "num": True}))
  # order 3 / 4: one symbolic factor times table factors
  for v, _ in TABLE:
    T.append(("h_stable", {"real": 2, "troots": [v]}))
    T.append(("h_stable", {"pairs": 1, "troots": [v]}))
  for pr, _ in PAIRS:
    T.append(("h_stable", {"real": 1, "tpairs": [pr]}))
    if big: T.append(("h_stable", {"pairs": 1, "tpairs": [pr]}, {"optional": True}))
  if big:
    T.append(("h_stable", {"real": 3}, {"optional": True}))
    T.append(("h_stable", {"real": 1, "pairs": 1}, {"optional": True}))
    for v, _ in TABLE[:5]:
      for w, _ in TABLE[1:4]:
        T.append(("h_stable", {"real": 2, "troots": [v, w]}, {"optional": True}))
  return T
