"""C14 - window functions obey their periodic/symmetric, symmetry and overlap contracts."""
import math
from fractions import Fraction

from symrun.nums import And, Or, Not, Sym, SymInt
from symrun.stubs import patched, TrigStub, Angle

META = {
  "functions": ["window._content_generation_table + both code templates through _generate_window_strategies (the real exec-generated "
                "functions)", "window / wsymm StrategyDicts and their .periodic / .symm cross links and aliases"],
  "bounds": {"quick": "sizes 1..8 (case-split; the size stays an exact symbolic-constant integer inside the formulas), blackman "
                      "alpha symbolic in [0, 1/4], cos alpha in {1, 2, 3}; overlap sums for hop=size/2 and size/4 where size allows",
             "thorough": "sizes 1..12 (hamming and blackman 1..10, cos 1..10 / 1..8 / 1..8 for alpha 1 / 2 / 3)"},
  "outside": "IEEE exactness beyond congruence (e.g. window.blackman(4)[0] evaluates to -1.4e-17 in floats; exact value 0), "
             "non-integer alpha of the cos window, blackman alpha above 1/4 (the window leaves [0,1] there)",
  "stubs": ["cos/sin/pi inside each generated function's globals: pi is an exact 'q*pi' object, cos/sin of rational multiples of pi "
            "are reduced by symmetry to canonical variables in (0, pi/4] with c^2+s^2=1, exact values at 0, pi/6, pi/4, pi/3, pi/2, "
            "ordering, and double-angle links between requested angles"],
  "assumptions": ["exact real arithmetic; float literals (.5, .54, .46, 2.0) read as the simplest rationals that round to them"],
}
CAPS = {"quick": {"query_s": 30, "max_paths": 2000, "witness_every": 1, "witness_floats": True, "witness_inputs_only": True},
        "thorough": {"query_s": 90, "max_paths": 8000, "witness_every": 1, "witness_floats": True, "witness_inputs_only": True}}

NAMES = {"hann": ("hann", "hanning"), "hamming": ("hamming",), "rect": ("rect", "dirichlet", "rectangular"),
         "bartlett": ("bartlett",), "triangular": ("triangular", "triangle"), "blackman": ("blackman",), "cos": ("cos",)}


class Env:
  def __init__(self, ctx, funcs):
    self.ctx = ctx
    self.trig = TrigStub(ctx)
    from symrun.stubs import Hermetic
    self.cms = [Hermetic(*[f.__globals__ for f in funcs])]
    if ctx.mode == "sym":
      for f in funcs:
        self.cms.append(patched(f.__globals__, cos=self.trig.cos, sin=self.trig.sin, pi=Angle(1)))
  def __enter__(self):
    for c in self.cms: c.__enter__()
    return self
  def __exit__(self, *a):
    for c in reversed(self.cms): c.__exit__(*a)
    if a[0] is None and self.ctx.mode == "sym":
      # vacuity guard: all trig facts (and every conjunct over the trig variables and inputs with known values)
      # hold at the true values cos(q*pi), sin(q*pi)
      from symrun.stubs import check_facts_numerically
      from symrun.core import EngineError
      env = dict(getattr(self.trig, "truth", {}))
      bad = check_facts_numerically(self.ctx, env)
      if bad: raise EngineError("trig stub facts false at the true values: %r" % (bad[:3],))
      self.ctx.stats.facts_checked = getattr(self.ctx.stats, "facts_checked", 0) + 1
    return False
  def cos(self, q):
    """cos(q*pi) for a Fraction q"""
    if self.ctx.mode == "sym": return self.trig.cos(Angle(q))
    return math.cos(float(q) * math.pi)
  def sin(self, q):
    if self.ctx.mode == "sym": return self.trig.sin(Angle(q))
    return math.sin(float(q) * math.pi)


def closed_form(E, name, n, size, alpha=None):
  """Documented closed form of sample n of a *periodic* window of the given size (symmetric: size-1)."""
  n = Fraction(n); size = Fraction(size)
  if name == "hann": return (1 - E.cos(2 * n / size)) / 2
  if name == "hamming": return Fraction(54, 100) - Fraction(46, 100) * E.cos(2 * n / size)
  if name == "rect": return 1
  if name == "bartlett": return 1 - 2 / size * abs(n - size / 2)
  if name == "triangular": return 1 - 2 / (size + 2) * abs(n - size / 2)
  if name == "blackman":
    return (1 - alpha) / 2 + alpha / 2 * E.cos(4 * n / size) - E.cos(2 * n / size) / 2
  if name == "cos": return E.sin(n / size) ** alpha
  raise ValueError(name)


def _size(ctx, size):
  """An exact integer that survives `2.0 / size`: a symbolic constant in symbolic runs."""
  return SymInt(c=int(size)) if ctx.mode == "sym" else int(size)


def _alpha(ctx, name, cfg):
  if name == "blackman":
    if cfg.get("alpha") == "default": return None
    return ctx.real("alpha", 0, Fraction(1, 4))
  if name == "cos":
    return cfg.get("alpha", 1)
  return None


def h_window(ctx, cfg):
  from audiolazy import window, wsymm
  name = cfg["name"]
  size = ctx.split("size", 1, cfg["N"])
  alpha = _alpha(ctx, name, cfg)
  a_eff = (Fraction(16, 100) if name == "blackman" else 1) if alpha is None else alpha
  fw, fs = window[name], wsymm[name]
  with Env(ctx, [fw, fs]) as E:
    args = () if alpha is None else (alpha,)
    w = fw(_size(ctx, size), *args)
    ws = fs(_size(ctx, size + 1), *args)
    wsy = fs(_size(ctx, size), *args)
    ctx.prove(isinstance(w, list) and len(w) == size, "window-has-size-samples", "len=%d" % len(w))
    ctx.prove(len(ws) == size + 1 and len(wsy) == size, "wsymm-has-size-samples")
    for n in range(size):
      ctx.prove(ctx.eq(w[n], closed_form(E, name, n, size, a_eff)), "sample-equals-the-documented-closed-form", "%s n=%d" % (name, n))
      ctx.prove(And(ctx.le(0, w[n]), ctx.le(w[n], 1)), "samples-in-[0,1]", "%s(%d)[%d]" % (name, size, n))
      ctx.prove(ctx.eq(w[n], ws[n]), "window.X(size)-is-the-first-size-samples-of-wsymm.X(size+1)", "n=%d" % n)
    for n in range(size):
      ctx.prove(ctx.eq(wsy[n], wsy[size - 1 - n]), "wsymm.X(size)-is-symmetric", "n=%d" % n)
      if size > 1:
        ctx.prove(ctx.eq(wsy[n], closed_form(E, name, n, size - 1, a_eff)), "wsymm-sample-equals-closed-form-with-size-1", "n=%d" % n)
        ctx.prove(And(ctx.le(0, wsy[n]), ctx.le(wsy[n], 1)), "wsymm-samples-in-[0,1]")
    if size == 1:
      ctx.prove(wsy == [1.0], "wsymm.X(1)-is-[1.0]", "%r" % (wsy,))
    # every call returns a fresh list: what a caller does to one result cannot leak into the next call
    r1 = fs(_size(ctx, size), *args)
    if r1: r1[0] = -7
    r2 = fs(_size(ctx, size), *args)
    ctx.prove(r2 is not r1 and len(r2) == size and all(bool(ctx.eq(a, b)) for a, b in zip(r2, wsy)), "wsymm-results-are-fresh-lists")
    p1 = fw(_size(ctx, size), *args); p1[0] = -7
    p2 = fw(_size(ctx, size), *args)
    ctx.prove(p2 is not p1 and all(bool(ctx.eq(a, b)) for a, b in zip(p2, w)), "window-results-are-fresh-lists")
    if name == "blackman" and alpha is not None:
      # a second call with the same size and another alpha must not see anything of the first
      beta = ctx.real("beta", 0, Fraction(1, 4))
      w2 = fw(_size(ctx, size), beta)
      for n in range(size):
        ctx.prove(ctx.eq(w2[n], closed_form(E, name, n, size, beta)), "every-call-uses-its-own-alpha", "n=%d" % n)
      wk = fw(size=_size(ctx, size), alpha=beta)
      ctx.prove(len(wk) == size and all(bool(ctx.eq(x, y)) for x, y in zip(wk, w2)), "keyword-arguments")


def h_cola(ctx, cfg):
  from audiolazy import window
  name = cfg["name"]; div = cfg["div"]
  k = ctx.split("k", 1, cfg["K"])
  size = k * div; hop = k
  alpha = ctx.real("alpha", 0, Fraction(1, 4)) if name == "blackman" else None
  fw = window[name]
  with Env(ctx, [fw]) as E:
    w = fw(_size(ctx, size), *(() if alpha is None else (alpha,)))
    sums = []
    for j in range(hop):
      acc = 0
      for c in range(j, size, hop): acc = acc + w[c]
      sums.append(acc)
    for j in range(1, hop):
      ctx.prove(ctx.eq(sums[j], sums[0]), "hop-shifted-copies-sum-to-a-constant", "%s size=%d hop=%d offset %d" % (name, size, hop, j))
    want = {"hann": Fraction(div, 2), "hamming": Fraction(54 * div, 100), "rect": div, "bartlett": Fraction(div, 2)}.get(name)
    if name == "blackman": want = (1 - alpha) / 2 * div
    if want is not None:
      ctx.prove(ctx.eq(sums[0], want), "constant-overlap-add-sum-value", "%s size=%d hop=%d" % (name, size, hop))


def h_links(ctx, cfg):
  """Cross references of both dictionaries, for every alias."""
  from audiolazy import window, wsymm
  ctx.prove(window.symm is wsymm and window.periodic is window and wsymm.symm is wsymm and wsymm.periodic is window,
            "dictionary-cross-references")
  for sname, aliases in NAMES.items():
    for al in aliases:
      pw = getattr(window, al, None)
      ctx.prove(pw is not None and pw is window[sname] and window[al] is pw, "window-alias-is-the-same-strategy", al)
      if al in wsymm or hasattr(wsymm, al):
        ctx.prove(wsymm[al] is wsymm[sname] and getattr(wsymm, al) is wsymm[sname], "wsymm-alias-is-the-same-strategy", al)
    ps, ss = window[sname], wsymm[sname]
    ctx.prove(ps.symm is ss and ps.periodic is ps and ss.periodic is ps and ss.symm is ss, "strategy-cross-references", sname)
    if sname == "rect":
      ctx.prove(ps is ss, "rect-is-both-periodic-and-symmetric")
    else:
      ctx.prove(ps is not ss, "periodic-and-symmetric-strategies-are-distinct", sname)
    # behaviour through an alias equals behaviour through the primary name (concrete sizes)
    for al in aliases:
      if al in wsymm:
        for size in (1, 2, 5):
          r = wsymm[al](size)
          ctx.prove(r == wsymm[sname](size) and all(abs(r[i] - r[size - 1 - i]) < 1e-12 for i in range(size)),
                    "symmetric-window-through-an-alias", "%s(%d)" % (al, size))
          if size == 1: ctx.prove(r == [1.0], "wsymm.alias(1)-is-[1.0]", al)


def tasks(tier, seed):
  big = tier == "thorough"
  N = 12 if big else 8
  T = []
  for name in ("hann", "hamming", "rect", "bartlett", "triangular"):
    # hamming: the range obligations of wsymm at sizes 11-12 met the 90 s solver cap in the last thorough run
    T.append(("h_window", {"name": name, "N": min(N, 10) if name == "hamming" else N}))
  # blackman needs the double-angle links: nlsat time grows quickly with the number of distinct angles
  T.append(("h_window", {"name": "blackman", "N": 10 if big else 8}, {"path_s": 400} if big else {}))
  T.append(("h_window", {"name": "blackman", "N": 10 if big else 8, "alpha": "default"}, {"path_s": 400} if big else {}))
  # cos ** alpha: the angles n*pi/size of all sizes up to N are linked by double-angle facts; beyond size 12 single paths
  # need minutes of nlsat time (the thorough run on a loaded machine lost 17 paths to the 90 s per-path watchdog)
  for a in (1, 2, 3):
    T.append(("h_window", {"name": "cos", "N": (10 if a == 1 else 8) if big else (N if a == 1 else min(N, 10)), "alpha": a},
              {"path_s": 900} if big else {}))
  for name in ("hann", "hamming", "rect", "bartlett"):
    T.append(("h_cola", {"name": name, "div": 2, "K": N // 2}))
  for name in ("hann", "hamming", "blackman", "rect"):
    T.append(("h_cola", {"name": name, "div": 4, "K": max(N // 4, 1)}))
  T.append(("h_cola", {"name": "blackman", "div": 3, "K": 2 if not big else 4}))
  T.append(("h_links", {}))
  return T
