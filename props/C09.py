"""C09 - overlap-add is the windowed hop-shifted sum and inverts blocking."""
import math
from fractions import Fraction
from symrun.nums import And, Or, Not, Sym, ExactInt

META = {
  "functions": ["overlap_add.list", "stft.base wrapper (parameter merge, blk_gen, ola dispatch) in decorator/partial/direct "
                "styles", "lazy_misc.blocks", "Stream.blocks"],
  "bounds": {"quick": "size 1..6 (1..4 with a normalised symbolic window), hop 1..size, block count m 0..4, every block sample and "
                      "window value a symbolic real, window kinds none/list/tuple/callable/generator, normalise on/off; "
                      "reconstruction: size<=6, hop | size, signal length <=9 with a symbolic window constrained only by the "
                      "constant-overlap-add equations",
             "thorough": "size 1..8 (1..5 normalised), m 0..5, reconstruction size<=8, signal length <=12"},
  "outside": "overlap_add.numpy and numpy transforms (numpy absent), hop > size, block streams whose size cannot be detected "
             "(size=None with zero blocks)",
  "stubs": [],
  "assumptions": ["exact real arithmetic", "pure-Python transform stages (or none) in the STFT wrapper"],
}
CAPS = {"quick": {"query_s": 20, "max_paths": 40000, "witness_every": 2},
        "thorough": {"query_s": 60, "max_paths": 400000, "witness_every": 5}}


def _mkwnd(kind, w, size, keep=None):
  if kind == "none": return None
  if kind == "list":
    l = list(w)
    if keep is not None: keep.append(l)
    return l
  if kind == "tuple": return tuple(w)
  if kind == "gen": return (v for v in w)
  if kind == "callable":
    l = list(w[:size])                      # a window function may hand out the very same list every time (memoised)
    if keep is not None: keep.append(l)
    return lambda n: l
  if kind == "callable-iterable":
    # a window *function* object that can also be iterated (like the window / wsymm strategy dictionaries, which are
    # dict subclasses): it is a callable window, what iterating it gives is not the window
    class WindowFamily(dict):
      def __call__(self, n): return list(w[:n])
    return WindowFamily(hann=len, rect=max, other=min)
  raise ValueError(kind)


def h_ola(ctx, cfg):
  from audiolazy import overlap_add
  size = ctx.split("size", 1, cfg["S"]); hop = ctx.split("hop", 1, cfg["S"])
  if hop > size: ctx.exclude("hop > size")
  m = ctx.split("m", 0, cfg["M"])
  B = [ctx.reals("b%d_" % k, size) for k in range(m)]
  kind = cfg["wnd"]; normalize = cfg["normalize"]
  w = ctx.reals("w", size) if kind != "none" else None
  if w is not None and cfg.get("wpos"):
    for v in w: ctx.assume(v >= 0)
  detect = cfg.get("detect", False)
  if detect and m == 0: ctx.exclude("size cannot be detected from an empty block stream")
  kw = {"hop": hop, "normalize": normalize}
  if not detect: kw["size"] = size
  kept = []
  if kind != "none": kw["wnd"] = _mkwnd(kind, w, size, kept)
  blks = (list(b) for b in B) if cfg.get("lazy", True) else [tuple(b) for b in B]
  if cfg.get("hopdefault") and hop == size: del kw["hop"]
  out = list(overlap_add.list(blks, **kw))
  for l in kept:
    ctx.prove(len(l) == size and And(*[ctx.eq(a, b) for a, b in zip(l, w)]), "the-caller's-window-list-is-not-modified")
  want_len = m * hop + size - hop
  ctx.prove(len(out) == want_len, "output-length-is-m*h+size-h", "len=%d want=%d (size=%d hop=%d m=%d)" % (len(out), want_len, size, hop, m))
  # gain
  G = 1                       # out = sum / G
  if normalize:
    if w is None:
      G = -(-int(size) // int(hop))            # ceil(size/hop)
    else:
      sums = []
      for j in range(hop):
        acc = 0
        for c in range(j, size, hop): acc = acc + abs(w[c])
        sums.append(acc)
      G = sums[0]
      for s_ in sums[1:]:
        if bool(s_ > G): G = s_
      if bool(G == 0): G = 1                   # a null window cannot be normalised
  for n in range(min(len(out), want_len)):
    acc = 0
    for k in range(m):
      j = n - k * hop
      if 0 <= j < size:
        acc = acc + (B[k][j] * w[j] if w is not None else B[k][j])
    ctx.observe("y", out[n])
    ctx.prove(ctx.eq(out[n] * G, acc), "out[n]-is-gain*sum_k-w[n-kh]*B_k[n-kh]", "n=%d" % n)


def h_bad_sizes(ctx, cfg):
  """Wrong window / block sizes are refused (ValueError) instead of silently mis-adding."""
  from audiolazy import overlap_add
  size, hop = cfg["size"], cfg["hop"]
  B = [ctx.reals("b%d_" % k, size + cfg["dblk"]) for k in range(2)]
  w = ctx.reals("w", size + cfg["dw"])
  try:
    list(overlap_add.list(iter(B), size=size, hop=hop, wnd=list(w), normalize=False))
    raised = False
  except ValueError:
    raised = True
  ctx.prove(raised, "incompatible-sizes-raise-ValueError", "dblk=%d dw=%d" % (cfg["dblk"], cfg["dw"]))


def _cola_window(ctx, size, hop):
  w = ctx.reals("w", size)
  for j in range(hop):
    acc = 0
    for c in range(j, size, hop): acc = acc + w[c]
    ctx.assume(acc == 1)
  return w


def h_reconstruct(ctx, cfg):
  """blocks then overlap-add with a window whose hop-shifted copies sum to one returns the signal wherever
  size/hop blocks overlap."""
  from audiolazy import overlap_add, Stream
  from audiolazy.lazy_misc import blocks
  size, hop, L = cfg["size"], cfg["hop"], cfg["L"]
  x = ctx.reals("x", L)
  w = _cola_window(ctx, size, hop)
  blks = Stream(list(x)).blocks(size=size, hop=hop, padval=0) if cfg["via"] == "stream" else blocks(iter(list(x)), size, hop, 0)
  out = list(overlap_add.list((list(b) for b in blks), size=size, hop=hop, wnd=list(w), normalize=False))
  J = _nblocks(L, size, hop)
  for n in range(L):
    if not _covered(n, J, size, hop): continue
    ctx.prove(n < len(out), "reconstruction:enough-output", "n=%d len(out)=%d" % (n, len(out)))
    if n < len(out):
      ctx.observe("r", out[n])
      ctx.prove(ctx.eq(out[n], x[n]), "blocking-then-overlap-add-returns-the-signal", "n=%d" % n)


def _nblocks(L, size, hop):
  """number of blocks the blockenizer produces for a length-L input (C08's rule)"""
  k = 0
  while k * hop + size <= L: k += 1
  if L - k * hop > max(size - hop, 0): k += 1
  return k


def _covered(n, J, size, hop):
  """sample n is covered by size/hop produced blocks"""
  ks = [k for k in range(J) if 0 <= n - k * hop < size]
  return len(ks) * hop == size


class Spy:
  def __init__(self): self.calls = []


def h_stft(ctx, cfg):
  """STFT wrapper: analysis window before func, identity processing reconstructs, only ola_* options reach the ola."""
  from audiolazy import stft, overlap_add
  size, hop, L = cfg["size"], cfg["hop"], cfg["L"]
  x = ctx.reals("x", L)
  w = _cola_window(ctx, size, hop)
  seen = []
  def func(blk):
    seen.append(list(blk))
    return blk
  ola_calls = []
  def spy_ola(blk_sig, **kw):
    ola_calls.append(dict(kw))
    return overlap_add.list(blk_sig, **kw)
  common = dict(transform=None, inverse_transform=None, before=None, after=None)
  style = cfg["style"]
  wnd = {"list": list(w), "callable": (lambda n: list(w)), "gen": None}[cfg.get("wkind", "list")]
  if wnd is None: wnd = (v for v in w)
  if style == "direct":
    wrapped = stft(func, size=size, hop=hop, wnd=wnd, ola=spy_ola, ola_normalize=False, **common)
    res = wrapped(list(x))
  elif style == "decorator":
    deco = stft(size=size, hop=hop, wnd=wnd, ola=spy_ola, ola_normalize=False, **common)
    wrapped = deco(func)
    res = wrapped(iter(list(x)))
  elif style == "partial":
    # defaults from an earlier stage are overridden by a later stage, call-time keywords override both
    base = stft(size=size + 3, hop=1, wnd=None, ola=None, **common)
    later = base(size=size + 1, ola=spy_ola, ola_normalize=False, wnd=wnd)
    wrapped = later(func)
    res = wrapped(list(x), size=size, hop=hop)
  elif style == "strategy":
    wrapped = stft.base(func, size=size, hop=hop, wnd=wnd, ola=spy_ola, ola_normalize=False, **common)
    res = wrapped(list(x))
  elif style == "ola_override":
    # ola_-prefixed options override what the overlap-add inherits from the analysis (size, hop)
    wrapped = stft(func, size=size, hop=hop, wnd=wnd, ola=spy_ola, ola_normalize=False, ola_hop=size, ola_wnd=None, **common)
    list(wrapped(list(x)))
    ctx.prove(len(ola_calls) == 1 and ola_calls[0] == {"size": size, "hop": size, "normalize": False, "wnd": None},
              "ola_-options-override-the-inherited-size-and-hop", "ola got %r" % (ola_calls,))
    return
  elif style == "ola_custom":
    # an overlap-add strategy with options of its own: exactly the prefix is stripped, whatever the rest looks like
    got = []
    def my_ola(blk_sig, size=None, hop=None, **kw):
      got.append(dict(kw))
      return overlap_add.list(blk_sig, size=size, hop=hop, normalize=False)
    opts = {"level": 7, "a": 1, "_x": 2, "ola_y": 3, "lo": 4, "o": 5, "alpha_": 6}
    wrapped = stft(func, size=size, hop=hop, wnd=wnd, ola=my_ola, **dict(common, **{"ola_" + k: v for k, v in opts.items()}))
    list(wrapped(list(x)))
    ctx.prove(len(got) == 1 and got[0] == opts, "ola_-prefix-is-stripped-exactly", "ola got %r" % (got,))
    return
  out = list(res)
  ctx.prove(len(ola_calls) == 1, "ola-called-once")
  if ola_calls:
    ctx.prove(ola_calls[0] == {"size": size, "hop": hop, "normalize": False}, "only-ola_-options-reach-the-overlap-add",
              "ola got %r" % (sorted(ola_calls[0]),))
  # analysis window multiplied before the user function
  nb = 0
  k = 0
  import itertools
  while k * hop < L or (k == 0 and L == 0 and False):
    k += 1
  for bi, blk in enumerate(seen):
    for j in range(size):
      idx = bi * hop + j
      xv = x[idx] if idx < L else 0
      ctx.prove(ctx.eq(blk[j], xv * w[j]), "analysis-window-applied-before-func", "block %d sample %d" % (bi, j))
  J = _nblocks(L, size, hop)
  ctx.prove(len(seen) == J, "func-called-once-per-block", "calls=%d blocks=%d" % (len(seen), J))
  for n in range(L):
    if not _covered(n, J, size, hop): continue
    ctx.prove(n < len(out), "stft:enough-output")
    if n < len(out):
      ctx.prove(ctx.eq(out[n], x[n]), "identity-stft-reconstructs-input", "n=%d" % n)
  # a processor is reusable: calling it again (no keyword given, or the same ones) does the same thing
  if cfg.get("wkind", "list") != "gen":
    del seen[:]; del ola_calls[:]
    again = list(wrapped(list(x), size=size, hop=hop) if style == "partial" else wrapped(list(x)))
    ctx.prove(len(again) == len(out) and (And(*[ctx.eq(a, b) for a, b in zip(again, out)]) if out else True),
              "processor-can-be-called-again", "second call: %d samples, first: %d" % (len(again), len(out)))
    ctx.prove(len(ola_calls) == 1 and ola_calls[0] == {"size": size, "hop": hop, "normalize": False},
              "only-ola_-options-reach-the-overlap-add", "second call: ola got %r" % (ola_calls,))
    # a keyword given at call time overrides the processor's default for THAT call: another analysis window function
    # of the same size (whatever an earlier call may have computed for this size)
    w2 = ctx.reals("v", size)
    del seen[:]; del ola_calls[:]
    third = list(wrapped(list(x), wnd=(lambda n: list(w2[:n])), **({"size": size, "hop": hop} if style == "partial" else {})))
    for bi, blk in enumerate(seen):
      for j in range(size):
        idx = bi * hop + j
        xv = x[idx] if idx < L else 0
        ctx.prove(ctx.eq(blk[j], xv * w2[j]), "analysis-window-applied-before-func",
                  "call-time window, block %d sample %d" % (bi, j))


def h_stft_args(ctx, cfg):
  """Unknown options are refused; missing size is refused; hop > size is refused; extra ola_ without ola refused."""
  from audiolazy import stft, overlap_add
  common = dict(transform=None, inverse_transform=None, before=None, after=None)
  f = lambda blk: blk
  x = ctx.reals("x", 4)
  def raises(exc, fn):
    try: list(fn()); return False
    except exc: return True
  ctx.prove(raises(TypeError, lambda: stft(f, hop=1, **common)(list(x))), "missing-size-is-TypeError")
  ctx.prove(raises(ValueError, lambda: stft(f, size=2, hop=3, **common)(list(x))), "hop>size-is-ValueError")
  ctx.prove(raises(TypeError, lambda: stft(f, size=2, hop=1, bogus=1, **common)(list(x))), "unknown-option-is-TypeError")
  ctx.prove(raises(TypeError, lambda: stft(f, size=2, hop=1, ola=None, ola_normalize=False, **common)(list(x))),
            "ola_-option-without-ola-is-TypeError")
  # an option of the overlap-add strategy given WITHOUT the prefix is not passed on, also when the strategy would take it
  reached = []
  def any_ola(blk_sig, **kw):
    reached.append(dict(kw))
    return overlap_add.list(blk_sig, **{k: v for k, v in kw.items() if k in ("size", "hop", "normalize", "wnd")})
  for name, val in (("normalize", False), ("level", 1), ("wnd_", None)):
    raises(TypeError, lambda: stft(f, size=2, hop=1, ola=any_ola, **dict(common, **{name: val}))(list(x)))   # refused today
    ctx.prove(not any(name in kw for kw in reached), "only-ola_-options-reach-the-overlap-add", "%s reached the ola" % name)
  # ola=None returns the processed blocks themselves
  blks = list(stft(lambda b: list(b), size=2, hop=1, ola=None, **common)(list(x)))
  ctx.prove(len(blks) == _nblocks(4, 2, 1) and all(len(b) == 2 for b in blks), "ola=None-yields-blocks", "n=%d" % len(blks))
  for i, b in enumerate(blks):
    ctx.prove(And(ctx.eq(b[0], x[i]), ctx.eq(b[1], x[i + 1] if i + 1 < 4 else 0)), "ola=None-block-contents")


def tasks(tier, seed):
  big = tier == "thorough"
  S, M = (8, 5) if big else (6, 4)
  T = []
  for kind in ("none", "list", "tuple", "callable", "gen"):
    for normalize in (False, True):
      cfg = {"S": S if not (normalize and kind != "none") else min(S, 4 if not big else 5), "M": M, "wnd": kind, "normalize": normalize}
      if normalize and kind != "none":
        cfg["M"] = 2
        T.append(("h_ola", dict(cfg, wpos=True, M=M)))
      T.append(("h_ola", cfg))
  T.append(("h_ola", {"S": 4, "M": 3, "wnd": "callable-iterable", "normalize": False}))
  T.append(("h_ola", {"S": 3, "M": 2, "wnd": "callable-iterable", "normalize": True, "wpos": True}))
  T.append(("h_ola", {"S": S, "M": M, "wnd": "list", "normalize": False, "detect": True}))
  T.append(("h_ola", {"S": S, "M": M, "wnd": "none", "normalize": True, "detect": True, "lazy": False}))
  T.append(("h_ola", {"S": S, "M": M, "wnd": "none", "normalize": False, "hopdefault": True}))
  for dblk, dw in ((1, 0), (-1, 0), (0, 1), (0, -1)):
    T.append(("h_bad_sizes", {"size": 3, "hop": 2, "dblk": dblk, "dw": dw}))
  grid = [(2, 1), (2, 2), (3, 1), (3, 3), (4, 2), (4, 1), (4, 4), (1, 1)]
  grid += [(6, 3), (6, 2), (5, 1), (5, 5), (6, 1)]
  if big: grid += [(8, 4), (8, 2), (7, 1), (8, 1), (7, 7)]
  for size, hop in grid:
    for L in ((size + 3, 8) if not big else (size + 3, 9, 12)):
      for via in ("stream", "func"):
        T.append(("h_reconstruct", {"size": size, "hop": hop, "L": L, "via": via}))
  for style in ("direct", "decorator", "partial", "strategy"):
    for size, hop in ((4, 2), (3, 1), (2, 2), (4, 1), (6, 3), (6, 2)) if not big else grid:
      T.append(("h_stft", {"size": size, "hop": hop, "L": size + 3, "style": style,
                           "wkind": {"direct": "list", "decorator": "callable", "partial": "list", "strategy": "gen"}[style]}))
  T.append(("h_stft_args", {}))
  for size, hop in ((4, 2), (3, 1)):
    T.append(("h_stft", {"size": size, "hop": hop, "L": size + 2, "style": "ola_override", "wkind": "list"}))
    T.append(("h_stft", {"size": size, "hop": hop, "L": size + 2, "style": "ola_custom", "wkind": "list"}))
  return T
