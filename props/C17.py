"""C17 - audio playback delivers every sample once, in order, and always shuts down.

Engine: pyts (AST of the real lazy_io.py -> transition system) + z3 bounded model checking (QF_BV); the thread
schedule is the symbolic variable.  Counterexamples and a sample of complete runs are replayed on the real classes.
"""
import json
import multiprocessing as mp
import os
import subprocess
import sys
import time

VERIF = os.path.dirname(os.path.dirname(os.path.abspath(__file__)))
QUERIES = ["safety", "lost", "final", "deadlock_nowait", "deadlock_wait"]

META = {
  "functions": ["AudioThread.__init__ (initial values)", "AudioThread.run/stop/pause/play", "AudioIO.__init__ (initial values)",
                "AudioIO.close/play/thread_finished/__exit__ (= close)", "chunks() as an abstract source of L chunks (C18 covers bytes)"],
  "bounds": {"quick": "1 player, L<=2 chunks, 1 control call chosen by the solver among {none, pause, play(resume), stop} issued at "
                      "any point, wait true/false, every interleaving at statement granularity (Lipton-reduced); unrolling depth K "
                      "is proved sufficient by the 'no run longer than K' query; 2 players with 0 control calls: bug hunting only "
                      "(sat search with a 90 s cap, nothing claimed)",
             "thorough": "1 player with <=2 control calls (claimed) and <=3 (attempted); 2 players with L<=1 and no control call "
                         "(claimed when the threshold query finishes: ~3-6 min per query here); 2 players with 1 control call "
                         "attempted with a 30 min cap per query and reported as not covered when the solver does not finish"},
  "outside": "sub-statement interleavings (CPython switches between bytecodes), 2-3 concurrent players unless the thorough queries "
             "finish (they did not within the cap on this machine: see evidence), recording streams, the backend's own behaviour",
  "stubs": ["pyaudio/_portaudio: ghost events (open, write, stop_stream, start_stream, close, terminate)",
            "threading.Lock / Event / Thread.start / join: guarded commands (acquire when free, wait when set, join when done)"],
  "assumptions": ["pre-emption at statement boundaries and blocking primitives only",
                  "wait=True: no player is left paused by the user when close() is called (otherwise 'wait for all audio' has no end)",
                  "Lipton reduction: lock acquires are right movers, releases left movers, thread-local statements both movers",
                  "two or more players: consecutive private steps of different players are explored in one order only (they commute)"],
}


def _lazy_io_path(repo):
  return os.path.join(repo, "audiolazy", "lazy_io.py")


def _query(args):
  path, P, LMAX, H, K, name, tmo = args[:7]
  faults = args[7] if len(args) > 7 else False
  closers = args[8] if len(args) > 8 else 1
  early = args[9] if len(args) > 9 else False
  sys.path.insert(0, VERIF)
  from pyts.model import Model, Unsupported
  try:
    m = Model(path, P=P, LMAX=LMAX, H=H, faults=faults, closers=closers, early=early)
    r = m.bmc(K, name, timeout_s=tmo)
    r.update({"P": P, "H": H, "LMAX": LMAX, "closers": closers, "model_lines": m.model_lines()})
    return r
  except Unsupported as e:
    return {"query": name, "result": "unsupported", "why": str(e), "P": P, "H": H, "LMAX": LMAX, "K": K}


def _samples(args):
  path, P, LMAX, H, K, specs, seed = args[:7]
  faults = args[7] if len(args) > 7 else False
  closers = args[8] if len(args) > 8 else 1
  early = args[9] if len(args) > 9 else False
  sys.path.insert(0, VERIF)
  import z3
  from pyts.model import Model, NOFAULT
  m = Model(path, P=P, LMAX=LMAX, H=H, faults=faults, closers=closers, early=early)
  out = []
  for (w, choices, Ls, pin) in specs:
    def extra(mm, st, sc, w=w, choices=choices, Ls=Ls, pin=pin):
      cs = [mm.WAIT == w] + [mm.CHOICE[i] == c for i, c in enumerate(choices)] + [mm.L[i] == l for i, l in enumerate(Ls)]
      # every other sampled run has a backend failure at the solver's choice of chunk (when the model allows faults)
      if faults and Ls and Ls[0] > 0 and (len(choices) + sum(Ls) + int(w)) % 2 == 0:
        cs.append(mm.FAULT[0] != NOFAULT); cs.append(mm.FAULT[0] < Ls[0])
      elif faults:
        cs += [f == NOFAULT for f in mm.FAULT]
      # schedule diversity: pin who moves at a few early steps (when compatible)
      for t, th in pin: cs.append(sc[t] == th)
      return z3.And(*cs)
    r = m.sample_run(K, timeout_s=120, extra=[extra])
    if r["result"] == "sat":
      r["P"] = P; r["model_lines"] = m.model_lines(); r["closers"] = closers
      out.append(r)
  return out


def _replay(repo, runs):
  py = os.path.join(VERIF, ".venv", "bin", "python")
  inp = os.path.join("/tmp", "c17_runs_%d.json" % os.getpid())
  with open(inp, "w") as f: json.dump(runs, f)
  try:
    p = subprocess.run([py, "-W", "ignore", os.path.join(VERIF, "pyts", "replay.py"), repo, inp], capture_output=True,
                       text=True, timeout=60 + 20 * len(runs))
    return json.loads(p.stdout)
  except Exception as e:
    return [{"status": "error", "detail": "replay failed: %r" % (e,)} for _ in runs]
  finally:
    try: os.unlink(inp)
    except OSError: pass


def _real_trace_ok(res, run):
  """The property stated on the real event trace of a replayed run.  -> list of violated clauses"""
  bad = []
  P = run["P"]
  ev = res["events"]
  closes = [e for e in ev if e[0] == "close"]
  if res["status"] != "ok": bad.append("run does not complete: " + res["detail"][:200])
  if len([e for e in ev if e[0] == "terminate"]) != 1: bad.append("terminate called %d times" % len([e for e in ev if e[0] == "terminate"]))
  created = len([e for e in ev if e[0] == "open"])        # a play() refused by an already closed manager opens nothing
  for p in range(P):
    want_closes = 1 if p < created else 0
    if len([e for e in closes if e[1] == p]) != want_closes:
      bad.append("stream %d closed %d times" % (p, len([e for e in closes if e[1] == p])))
  if res.get("raised_after_close") is not True: bad.append("play after close did not raise")
  opens = [i for i, e in enumerate(ev) if e[0] == "open"]
  terms = [i for i, e in enumerate(ev) if e[0] == "terminate"]
  if len(opens) != len(closes): bad.append("%d device streams were opened but %d closed" % (len(opens), len(closes)))
  if terms and any(i > terms[0] for i in opens): bad.append("a device stream was opened after the backend was terminated")
  if any(res.get("players_alive", [])): bad.append("a player thread is still alive")
  if run.get("closers") == 2:
    c2 = res.get("c2_post")
    if res.get("c2_exc"): bad.append("the second close() raised %s" % res["c2_exc"])
    elif c2 is None: bad.append("the second close() did not return")
    else:
      if c2["terminated"] != 1: bad.append("when the second close() returned the backend had been terminated %d times" % c2["terminated"])
      if c2["streams_open"] or c2["closes"] != c2["opens"]: bad.append("when the second close() returned a device stream was still open")
      if any(c2["players_alive"]): bad.append("when the second close() returned a player thread was still alive")
  if not run["wait"]:
    calls = res.get("calls", [])
    for i, c in enumerate(calls):
      if c[0] == "join" and ["stop", c[1]] not in calls[:i]:
        bad.append("wait is false but player %d was joined without being asked to stop first" % c[1])
  # chunks: consecutive prefix of the audio, complete unless the player was stopped
  CH = run.get("chunk_size", 2)
  import struct
  for p in range(min(P, created)):
    ws = res.get("writes", {}).get(str(p), [])
    want = [float(i % 3) for i in range(run["L"][p] * CH)]
    got = []
    for w in ws: got.extend(struct.unpack("%df" % CH, bytes.fromhex(w)))
    if got != want[:len(got)]: bad.append("stream %d: chunks are not the audio in order" % p)
    stopped = any(c == 3 and t == p for c, t in zip(run["choices"], run["targets"])) or not run["wait"]
    flt = (run.get("faults") or [None] * P)[p]
    if flt is not None:            # the backend failed at chunk `flt`: nothing after it may reach the device
      if len(got) > flt * CH: bad.append("stream %d: %d samples delivered after the backend failed at chunk %d" % (p, len(got), flt))
      if not stopped and len(got) != flt * CH: bad.append("stream %d: %d samples delivered before the failure at chunk %d" % (p, len(got), flt))
      continue
    if not stopped and len(got) != len(want): bad.append("stream %d: %d of %d samples delivered although never stopped" % (p, len(got), len(want)))
  return bad


def _replay_file(a, repo):
  """./check C17 --replay <path>: re-runs one stored counterexample against the real classes."""
  with open(a.replay) as f: rp = json.load(f)
  if str(rp.get("harness", "")).startswith("h_"):          # symrun harness of props/C17s.py
    from symrun import core
    from fractions import Fraction
    from props import C17s
    model = {}
    for n, x in rp["model"].items():
      try: model[n] = Fraction(x)
      except (ValueError, TypeError): model[n] = x
    rep = core.run_concrete(getattr(C17s, rp["harness"]), rp["cfg"], model, {})
    bad = rep["status"] in ("failed", "exception")
    print("replay %s: status=%s clause=%s detail=%s" % (a.replay, rep["status"], rep.get("clause"), rep.get("detail")))
  else:
    run = rp["run"]
    rep = _replay(repo, [run])[0]
    if rp["clause"].startswith("deadlock") or rp["clause"] == "longer":
      bad = rep["status"] in ("blocked", "hang"); what = rep.get("detail", "")[:300]
    else:
      probs = _real_trace_ok(rep, run); raised = [x for x in (rep.get("c2_exc"), rep.get("main_exc")) if x]
      bad = bool(probs) and (rep["status"] == "ok" or bool(raised)); what = "; ".join(probs + raised)
    print("replay %s: status=%s %s" % (a.replay, rep["status"], what))
  if bad:
    print("VIOLATION property=C17 replay=%s" % a.replay); return 1
  return 0


def main(a, seed):
  sys.path.insert(0, VERIF)
  from symrun.cli import load_known, match_known
  repo = os.environ.get("VERIF_REPO", "/repo")
  path = _lazy_io_path(repo)
  tier = a.tier
  t0 = time.time()
  if a.replay:
    return _replay_file(a, repo)
  # content half of the property: symrun harnesses on the real AudioThread.run (props/C17s.py), run first
  from symrun import cli as _cli, core as _core
  from props import C17s
  stasks = []
  for t in C17s.tasks(tier, seed):
    caps = {"task_s": 300 if tier == "quick" else 1200, "query_s": 10, "max_paths": 50000, "witness_every": 1}
    if a.only and a.only not in t[0] and a.only not in json.dumps(t[1]): continue
    stasks.append(("C17s", t[0], t[1], caps))
  sres = _cli.run_tasks(stasks, a.procs) if stasks else []
  from pyts.model import Model, Unsupported
  lines = []
  rc = 0
  # faults=True: the backend may fail at one solver-chosen write per player (the exception ends the player unless the code
  # handles it); the fault-free behaviours are the instances fault<p> = NOFAULT of the same queries
  cfgs = [dict(P=1, H=1, LMAX=2, Ks=(30, 36, 44), tmo=300, claim=True, faults=True),
          # a second thread closes the manager concurrently (terminate(), a with-block left in another thread, __del__)
          dict(P=1, H=0, LMAX=1, Ks=(30, 36, 44), tmo=300, claim=True, closers=2, queries=QUERIES + ["final2"]),
          # ... and a second thread that closes at ANY moment, also while play() is still at work
          dict(P=1, H=0, LMAX=1, Ks=(30, 36, 44), tmo=300, claim=True, closers=2, early=True, queries=QUERIES + ["final2"])]
  if tier == "thorough":
    cfgs.append(dict(P=1, H=2, LMAX=2, Ks=(40, 48, 56), tmo=900, claim=True, faults=True))
    cfgs.append(dict(P=1, H=3, LMAX=1, Ks=(44, 52, 60), tmo=1200, claim=False))
    cfgs.append(dict(P=2, H=0, LMAX=1, Ks=(40, 46), tmo=1800, claim=True))     # two players, no control call: ~3-6 min per query
    cfgs.append(dict(P=2, H=1, LMAX=1, Ks=(46,), tmo=1800, claim=False))
  else:
    cfgs.append(dict(P=2, H=0, LMAX=1, Ks=(30,), tmo=90, claim=False, hunt=True))
    # three control calls, one chunk: bug hunting for shutdown problems within 40 steps (this is what found
    # pause; stop; pause; close(wait=True)), nothing claimed in the quick tier
    cfgs.append(dict(P=1, H=3, LMAX=1, Ks=(40,), tmo=120, claim=False, hunt=True, queries=["deadlock_wait", "deadlock_nowait"]))
  all_results, inconcl, errors, viol = [], [], [], []
  validated = 0
  samples_out = []
  nodes_info = {}
  pool = mp.get_context("fork").Pool(min(a.procs, 12))
  import threading
  z3_lock = threading.Lock()
  try:
    def do_cfg(cfg):
      nonlocal validated
      P, H, LMAX = cfg["P"], cfg["H"], cfg["LMAX"]
      FL = bool(cfg.get("faults")); CL = cfg.get("closers", 1); EA = bool(cfg.get("early"))
      try:
        with z3_lock:          # the z3 API is not thread-safe: this process only builds the model to report its size
          m = Model(path, P=P, LMAX=LMAX, H=H, faults=FL, closers=CL, early=EA)
          nodes_info["P%dH%d%s%s" % (P, H, "C2" if CL == 2 else "", "early" if EA else "")] = {"cfg_nodes": m.nodes_before_reduction, "after_reduction": m.nodes_total()}
          del m
      except Unsupported as e:
        inconcl.append({"clause": "translator", "why": "translator does not support the current source: %s" % e})
        return
      # 1. completeness threshold: smallest K of the ladder with no longer run
      K = None
      if not cfg.get("hunt"):
        for k in cfg["Ks"]:
          r = pool.apply(_query, ((path, P, LMAX, H, k, "longer", cfg["tmo"], FL, CL, EA),))
          all_results.append(r)
          if r["result"] == "unsat":
            K = k; break
          if r["result"] != "sat": break
        if K is None and all_results[-1]["result"] == "sat":
          # a run that is still going after the largest K: either the ladder is too short or close() spins for ever
          # (livelock).  Decide on the real classes: play the schedule, then let everything run freely.
          r = all_results[-1]
          run = dict(r, P=P, steps=r["steps"], step_timeout=0.8)
          rep = _replay(repo, [run])[0]
          if rep["status"] == "hang":          # the schedule was followed to its end and the real threads still do not finish
            what = "close() never returns (a run of the model is still going after %d steps and the real classes hang): %s" % (
                r["K"], rep["detail"][:300])
            viol.append({"harness": "bmc:longer", "clause": "longer", "cfg": {"P": P, "H": H, "LMAX": LMAX, "K": r["K"], "faults": FL},
                         "detail": what, "model": {"wait": r["wait"], "L": r["L"], "choices": r["choices"], "targets": r["targets"],
                                                   "faults": r.get("faults"), "schedule": r["schedule"]},
                         "run": run, "what": what})
            return
        hunting_only = False
        if K is None:
          msg = {"clause": "completeness-threshold", "why": "no K of %r proved sufficient for P=%d H=%d (last: %s)" % (cfg["Ks"], P, H, all_results[-1]["result"])}
          (inconcl if cfg["claim"] else samples_out).append(msg if cfg["claim"] else dict(msg, note="not claimed"))
          # nothing can be claimed for this configuration any more, but the property queries are still worth asking at the
          # largest K: whatever they find is replayed on the real classes before it is reported
          K = cfg["Ks"][-1]; hunting_only = True
      else:
        K = cfg["Ks"][0]
      # 2. the property queries, in parallel
      jobs = [(path, P, LMAX, H, K, q, cfg["tmo"], FL, CL, EA) for q in cfg.get("queries", QUERIES)]
      for r in pool.imap_unordered(_query, jobs):
        all_results.append(r)
        if r["result"] == "unsat": continue
        if r["result"] == "sat":
          run = dict(r, P=P, steps=r["steps"], step_timeout=0.8)
          rep = _replay(repo, [run])[0]
          confirmed = None
          if r["query"].startswith("deadlock"):
            confirmed = rep["status"] in ("blocked", "hang")
            what = "close() never returns: " + rep["detail"][:300]
          else:
            bad = _real_trace_ok(rep, run)
            # a trace violation counts only when the real classes followed the model's schedule to its end; a replay
            # that strays from the schedule is a model/implementation mismatch (engine error), not a finding
            # (an exception escaping from close() itself ends that thread early - that IS the finding, not a mismatch)
            raised = [x for x in (rep.get("c2_exc"), rep.get("main_exc")) if x]
            if raised: bad = ["close() raised %s" % "; ".join(raised)] + [b for b in bad if "does not complete" not in b]
            confirmed = bool(bad) and (rep["status"] == "ok" or bool(raised)); what = "; ".join(bad)
          v = {"harness": "bmc:%s" % r["query"], "clause": r["query"], "cfg": {"P": P, "H": H, "LMAX": LMAX, "K": K},
               "detail": what, "model": {"wait": r["wait"], "L": r["L"], "choices": r["choices"], "targets": r["targets"],
                                         "faults": r.get("faults"), "schedule": r["schedule"]},
               "run": run, "what": what}
          if confirmed: viol.append(v)
          else: errors.append({"why": "counterexample of the model did not reproduce on the real classes", "query": r["query"],
                               "replay": rep.get("status"), "detail": rep.get("detail", "")[:300], "cfg": v["cfg"]})
        elif cfg["claim"]:
          inconcl.append({"clause": r["query"], "why": "solver %s (P=%d H=%d K=%d): %s" % (r["result"], P, H, K, r.get("why", ""))})
      # 3. validate the model against the implementation: complete runs chosen by the solver, replayed natively
      if cfg["claim"] and not (not cfg.get("hunt") and hunting_only):
        specs = []
        import itertools, random
        rng = random.Random(seed + 17)
        codes = [0, 1, 2, 3]
        for w in (True, False):
          for ch in itertools.product(codes, repeat=H):
            if w and any(c == 1 for c in ch) and not any(c in (2,) for c in ch[ch.index(1):]):
              continue                         # a player left paused + wait=True never ends (environment assumption)
            for Ls in ([2] * P, [1] * P, [0] * P):
              pin = [(t, rng.choice([0, 1])) for t in rng.sample(range(6, 14), 2)]
              specs.append((w, list(ch), Ls, pin if rng.random() < .7 else []))
        rng.shuffle(specs)
        specs = specs[: (28 if tier == "quick" else 60)]
        chunks_ = [specs[i::4] for i in range(4)]
        runs = []
        for part in pool.imap_unordered(_samples, [(path, P, LMAX, H, K, c, seed, FL, CL, EA) for c in chunks_]):
          runs.extend(part)
        reps = _replay(repo, runs)
        for run, rep in zip(runs, reps):
          real = [[e[0]] + ([e[1]] if len(e) > 1 else []) for e in rep.get("events", [])]
          if rep["status"] == "ok" and real == run["events"] and not _real_trace_ok(rep, run):
            validated += 1
            if len(samples_out) < 4:
              samples_out.append({"wait": run["wait"], "L": run["L"], "choices": run["choices"], "faults": run.get("faults"),
                                  "schedule_steps": len(run["steps"]),
                                  "events": run["events"], "verdict": "model run replayed on the real classes: same event trace"})
          else:
            errors.append({"why": "model run and real run differ", "status": rep["status"], "detail": rep.get("detail", "")[:300],
                           "model_events": run["events"], "real_events": real, "trace_violations": _real_trace_ok(rep, run),
                           "choices": run["choices"], "wait": run["wait"], "L": run["L"]})
    def guarded(cfg):
      try:
        do_cfg(cfg)
      except BaseException as e:
        import traceback
        errors.append({"why": "configuration crashed: %r" % (e,), "cfg": {k: v for k, v in cfg.items() if k != "Ks"},
                       "trace": traceback.format_exc()[-1200:]})
    if tier == "quick":
      # the bug-hunting configurations (capped sat searches) run next to the claimed one: they share the process pool
      import threading
      ths = [threading.Thread(target=guarded, args=(c,)) for c in cfgs]
      for t in ths: t.start()
      for t in ths: t.join()
    else:
      for c in cfgs: guarded(c)
  finally:
    pool.terminate()

  sagg = {"paths": 0, "obligations": 0, "discharged": 0, "witnesses": 0, "sat": 0, "unsat": 0, "unknown": 0, "solver_s": 0.0}
  ssamples = []
  seen = set()
  for r in sres:
    for k in ("paths", "obligations", "discharged", "witnesses"): sagg[k] += r[k]
    for k in ("sat", "unsat", "unknown"): sagg[k] += r["q"][k]
    sagg["solver_s"] += r["solver_s"]
    if r["samples"] and len(ssamples) < 2: ssamples.append(r["samples"][0])
    for v in r["violations"]:
      key = (v["harness"], v["clause"], json.dumps(v["cfg"], sort_keys=True))
      if key in seen: continue
      seen.add(key); viol.append(v)
    for i in r["inconclusive"]: inconcl.append(dict(i, harness=r["harness"], cfg=r["cfg"]))
    for e in r["errors"]: errors.append(dict(e, harness=r["harness"]))
  if stasks and sagg["obligations"] == 0 and not viol:
    errors.append({"why": "the content harnesses explored nothing"})
  known = load_known()
  os.makedirs(os.path.join(VERIF, "replays", "C17"), exist_ok=True)
  new_v = []
  for n, v in enumerate(viol):
    k = match_known(v, "C17", known)
    if k is not None:
      lines.append("KNOWN-FINDING: property=C17 %s" % k["what"]); continue
    pth = os.path.join(VERIF, "replays", "C17", "%s-%d.json" % (v["clause"], n))
    with open(pth, "w") as f: json.dump(v, f, indent=1, default=str)
    lines.append("VIOLATION property=C17 replay=%s" % pth)
    if v["harness"].startswith("bmc:"):
      lines.append("  query=%s cfg=%s wait=%s L=%s control=%s backend-failure-at-chunk=%s\n  %s" % (
                   v["clause"], v["cfg"], v["model"]["wait"], v["model"]["L"],
                   list(zip(v["model"]["choices"], v["model"]["targets"])), v["model"].get("faults"), v["detail"]))
    else:
      lines.append("  harness=%s clause=%s cfg=%s\n  detail=%s\n  inputs=%s" % (v["harness"], v["clause"], json.dumps(v["cfg"]),
                   v["detail"], json.dumps({k: x for k, x in (v["model"] or {}).items() if "!" not in k})))
    new_v.append(v)
  claimed = [r for r in all_results if r.get("result") in ("sat", "unsat")]
  qcount = {"sat": 0, "unsat": 0, "unknown": 0}
  for r in all_results: qcount[r["result"] if r["result"] in qcount else "unknown"] += 1
  solver_s = sum(r.get("time_s", 0) for r in all_results)
  states = sum(r.get("nodes", 0) * r.get("K", 0) for r in all_results if r.get("result") == "unsat")
  for k in ("sat", "unsat", "unknown"): qcount[k] += sagg[k]
  cov = {"states": max(states, 1) + sagg["paths"],
         "transitions": max(sum(r.get("nodes", 0) * r.get("K", 0) for r in all_results), 1) + sagg["obligations"],
         "traces_validated_against_impl": validated + sagg["witnesses"],
         "samples": (samples_out + ssamples) or [{"note": "no sample"}],
         "queries": qcount, "solver_time_s": round(solver_s + sagg["solver_s"], 1),
         "content_harness": {"module": "props/C17s.py", "functions_encoded": C17s.META["functions"], "bounds": C17s.META["bounds"][tier],
                             "paths": sagg["paths"], "obligations": sagg["obligations"], "discharged": sagg["discharged"],
                             "witnesses_replayed_natively": sagg["witnesses"]},
         "query_results": [{k: r.get(k) for k in ("query", "P", "H", "LMAX", "K", "result", "time_s", "nodes")} for r in all_results],
         "cfg_nodes": nodes_info, "functions_encoded": META["functions"], "bounds": META["bounds"][tier],
         "outside_bounds": META["outside"], "stubs": META["stubs"], "inconclusive": inconcl[:10], "engine_errors": errors[:6],
         "exhaustive": False,
         "explanation": "states = CFG nodes x unrolling depth summed over the discharged (unsat) BMC queries; transitions the same "
                        "over all queries; every query is one QF_BV satisfiability call over the K-step unrolling with a symbolic schedule"}
  ev = {"property_id": "C17", "tier": tier, "seed": seed, "level": "model_checking", "coverage": cov,
        "assumptions": META["assumptions"], "wall_s": round(time.time() - t0, 1), "violations": len(new_v)}
  if not a.no_evidence:
    with open(os.path.join(VERIF, "evidence", "C17.json"), "w") as f: json.dump(ev, f, indent=1, default=str)
  print("C17 %s: queries=%s solver=%.0fs traces_validated=%d content paths=%d obligations=%d/%d wall=%.0fs"
        % (tier, qcount, solver_s, validated, sagg["paths"], sagg["discharged"], sagg["obligations"], time.time() - t0))
  for r in all_results:
    print("   P=%s H=%s K=%s %-16s %s (%.1fs)" % (r.get("P"), r.get("H"), r.get("K"), r.get("query"), r.get("result"), r.get("time_s", 0)))
  for l in lines: print(l)
  if new_v: rc = 1
  if errors:
    print("ENGINE-ERROR (%d):" % len(errors))
    for e in errors[:4]: print("  ", json.dumps(e, default=str)[:1200])
    rc = rc or 2
  if inconcl:
    print("INCONCLUSIVE (%d):" % len(inconcl))
    for e in inconcl[:5]: print("  ", json.dumps(e, default=str)[:600])
    rc = rc or 2
  if validated < 20 and not rc:
    print("ENGINE-ERROR: only %d model runs validated against the implementation" % validated); rc = 2
  return rc
