"""Registry through which symbolic proxies survive str()/format().

``LinearFilter.__call__`` pastes ``str(coeff)`` into source text and execs it.
A proxy formats itself as ``__import__('symrun_reg').R[k]``, an expression that
evaluates (inside any exec'd namespace) to the proxy itself.
"""
R = {}
