"""./check <ID> [--tier quick|thorough] [--replay path] [--only substr] [--procs N]"""
import argparse
import importlib
import json
import multiprocessing as mp
import os
import sys
import time
import traceback
import warnings

VERIF = os.path.dirname(os.path.dirname(os.path.abspath(__file__)))
REPO = os.environ.get("VERIF_REPO", "/repo")


def _setup_paths():
  warnings.filterwarnings("ignore")
  for p in (VERIF, REPO):
    if p in sys.path: sys.path.remove(p)
  sys.path.insert(0, VERIF)
  sys.path.insert(0, REPO)
  sys.dont_write_bytecode = True
  sys.setrecursionlimit(20000)
  if hasattr(sys, "set_int_max_str_digits"): sys.set_int_max_str_digits(0)     # exact rationals can get very long


def _load(pid):
  return importlib.import_module("props." + pid)


def _run_task(args):
  pid, hname, cfg, caps = args
  _setup_paths()
  from symrun import core
  t0 = time.time()
  try:
    mod = _load(pid)
    harness = getattr(mod, hname)
    st = core.explore(harness, cfg, caps, hname=hname)
  except BaseException as e:
    st = core.Stats()
    st.errors.append({"why": "task crashed: %r" % (e,), "trace": traceback.format_exc()[-2000:],
                      "harness": hname, "cfg": core._jsonable(cfg)})
  dumped = getattr(st, "dumped", [])
  out = {k: getattr(st, k) for k in ("max_q", "q", "solver_s", "paths", "decisions", "obligations",
                                     "discharged", "witnesses", "witness_skipped", "samples",
                                     "violations", "inconclusive", "errors", "excluded_paths",
                                     "maybe_infeasible")}
  out["dumped"] = dumped[:4]
  out["generic_disagreements"] = getattr(st, "generic_disagreements", 0)
  out["harness"] = hname
  out["cfg"] = core._jsonable(cfg)
  out["wall_s"] = time.time() - t0
  out["optional"] = bool(caps.get("optional"))
  return out


def _worker(task, conn):
  try:
    conn.send(_run_task(task))
  except BaseException as e:
    try: conn.send({"crash": repr(e)})
    except Exception: pass
  finally:
    conn.close()


def run_tasks(tasks, procs):
  """One forked process per task, at most `procs` at a time, each with a HARD wall limit (4 x task_s + 2 min; task_s itself is a CPU-time budget): a worker stuck
  inside a native solver / normalisation call cannot be interrupted from Python, so it is killed and the task is
  reported inconclusive."""
  import multiprocessing.connection as mpc
  ctxm = mp.get_context("fork")
  pending = list(tasks)[::-1]
  running = {}
  results = []
  def blank(task, why):
    pid, hname, cfg, caps = task
    from symrun import core
    return {"max_q": 0, "q": {"sat": 0, "unsat": 0, "unknown": 0}, "solver_s": 0, "paths": 0, "decisions": 0,
            "obligations": 0, "discharged": 0, "witnesses": 0, "witness_skipped": 0, "samples": [], "violations": [],
            "inconclusive": [{"clause": "engine", "why": why}], "errors": [], "excluded_paths": 0, "maybe_infeasible": 0,
            "harness": hname, "cfg": core._jsonable(cfg), "wall_s": 0, "optional": bool(caps.get("optional"))}
  while pending or running:
    while pending and len(running) < max(1, procs):
      task = pending.pop()
      r, w = ctxm.Pipe(duplex=False)
      p = ctxm.Process(target=_worker, args=(task, w), daemon=True)
      p.start(); w.close()
      limit = task[3].get("task_s", 300) * 4 + 120          # wall; the task itself budgets CPU time
      running[r] = (p, task, time.time() + limit, limit)
    ready = mpc.wait(list(running), timeout=0.5)
    for r in ready:
      p, task, dl, limit = running.pop(r)
      try:
        res = r.recv()
      except (EOFError, OSError):
        res = None
      r.close(); p.join(5)
      if not isinstance(res, dict) or "crash" in res:
        res = blank(task, "worker died: %r" % (res,))
      results.append(res)
    now = time.time()
    for r in list(running):
      p, task, dl, limit = running[r]
      if now > dl:
        p.kill(); p.join(5); r.close(); running.pop(r)
        results.append(blank(task, "task killed after %.0f s (stuck inside a native solver/normalisation call)" % limit))
  return results


def load_known():
  p = os.path.join(VERIF, "known_findings.json")
  if not os.path.exists(p): return []
  with open(p) as f:
    return json.load(f).get("findings", [])


def match_known(v, pid, known):
  from fractions import Fraction
  for k in known:
    if k.get("property") != pid or k.get("status", "open") != "open": continue
    if k.get("harness") and k["harness"] != v["harness"]: continue
    if k.get("clause") and k["clause"] != v["clause"]: continue
    where = k.get("where")
    if where:
      model = {}
      for n, x in (v.get("model") or {}).items():
        try: model[n] = Fraction(x) if not isinstance(x, bool) else x
        except (ValueError, TypeError): model[n] = x
      try:
        ok = bool(eval(where, {"Fraction": Fraction}, {"cfg": v.get("cfg") or {}, "m": model,
                                                       "detail": v.get("detail") or "",
                                                       "clause": v["clause"]}))
      except Exception:
        ok = False
      if not ok: continue
    return k
  return None


def main(argv=None):
  _setup_paths()
  ap = argparse.ArgumentParser()
  ap.add_argument("pid")
  ap.add_argument("--tier", default=os.environ.get("VERIF_TIER", "quick"))
  ap.add_argument("--replay")
  ap.add_argument("--only")
  ap.add_argument("--procs", type=int, default=int(os.environ.get("VERIF_PROCS", "16")))
  ap.add_argument("--no-evidence", action="store_true")
  ap.add_argument("--verbose", "-v", action="store_true")
  a = ap.parse_args(argv)
  seed = int(os.environ.get("VERIF_SEED", "0") or 0)
  mod = _load(a.pid)
  if hasattr(mod, "main"):
    return mod.main(a, seed)
  from symrun import core

  if a.replay:
    with open(a.replay) as f: rp = json.load(f)
    if rp["harness"].startswith(("crosshair:", "fp:")) and hasattr(mod, "replay_extra"):
      bad = mod.replay_extra(rp)
      print("replay %s: %s" % (a.replay, "reproduced" if bad else "did not reproduce"))
      if bad:
        print("VIOLATION property=%s replay=%s" % (a.pid, a.replay)); return 1
      return 0
    harness = getattr(mod, rp["harness"])
    from fractions import Fraction
    model = {}
    for n, x in rp["model"].items():
      try: model[n] = Fraction(x)
      except (ValueError, TypeError): model[n] = x
    rep = core.run_concrete(harness, rp["cfg"], model, {})
    print("replay %s: status=%s clause=%s detail=%s" % (a.replay, rep["status"],
          rep.get("clause"), rep.get("detail")))
    if rep["status"] in ("failed", "exception"):
      print("VIOLATION property=%s replay=%s" % (a.pid, a.replay))
      return 1
    return 0

  t0 = time.time()
  tasks = []
  for t in mod.tasks(a.tier, seed):
    hname, cfg = t[0], t[1]
    caps = {"task_s": 300 if a.tier == "quick" else 2400}
    if a.tier != "quick": caps["path_s"] = 600          # the per-path watchdog is wall-clock: generous on loaded machines
    if a.tier == "thorough" or os.environ.get("VERIF_XSOLVER"): caps["dump_queries"] = 4
    caps.update(getattr(mod, "CAPS", {}).get(a.tier, {}))
    if len(t) > 2 and t[2]:
      caps.update(t[2])
      if t[2].get("optional") and "task_s" not in t[2]: caps["task_s"] = min(caps["task_s"], 900)   # attempts are time-boxed
    if a.only and a.only not in hname and a.only not in json.dumps(core._jsonable(cfg)):
      continue
    tasks.append((a.pid, hname, cfg, caps))
  try:
    import audiolazy            # imported once here: the per-task processes are forked and inherit it
    from symrun import stubs, containers, loader
  except Exception:
    pass
  results = run_tasks(tasks, a.procs)
  results.sort(key=lambda r: (r["harness"], json.dumps(r["cfg"], sort_keys=True)))
  extra = None
  if hasattr(mod, "extra") and not a.only:
    extra = mod.extra(a.tier, REPO)
  return report(a, mod, results, time.time() - t0, seed, extra)


def cross_solver(results, limit=80, tmo=30):
  """Differential run of a sample of the decided queries on two other solver builds (z3 4.8.12 binary, cvc5 binary)."""
  import subprocess, tempfile, shutil
  qs = []
  for r in results:
    for item in r.get("dumped", []): qs.append(item)
  qs = qs[:limit]
  out = {"queries_compared": 0, "disagreements": 0, "other_solver_timeouts_or_unsupported": 0, "solvers": []}
  if not qs: return out
  tools = [("z3-4.8.12", ["/usr/bin/z3", "-T:%d" % tmo]), ("cvc5-1.0", ["cvc5", "--tlimit=%d" % (tmo * 1000)])]
  tools = [(n, c) for n, c in tools if shutil.which(c[0])]
  out["solvers"] = [n for n, _ in tools]
  d = tempfile.mkdtemp(prefix="xsolver_")
  try:
    procs = []
    for i, (res, smt) in enumerate(qs):
      path = os.path.join(d, "q%d.smt2" % i)
      with open(path, "w") as f: f.write("(set-logic ALL)\n" + smt + "\n")
      for n, c in tools:
        procs.append((res, n, subprocess.Popen(c + [path], stdout=subprocess.PIPE, stderr=subprocess.STDOUT, text=True)))
      if len(procs) >= 16:
        _collect(procs, out, tmo); procs = []
    _collect(procs, out, tmo)
  finally:
    shutil.rmtree(d, ignore_errors=True)
  return out


def _collect(procs, out, tmo):
  for res, n, p in procs:
    try:
      o, _ = p.communicate(timeout=tmo + 10)
    except Exception:
      p.kill(); o = "timeout"
    first = (o.strip().splitlines() or [""])[0].strip()
    if first in ("sat", "unsat"):
      out["queries_compared"] += 1
      if first != res:
        out["disagreements"] += 1
        out.setdefault("disagreement_samples", []).append({"solver": n, "symrun": res, "other": first})
    else:
      out["other_solver_timeouts_or_unsupported"] += 1


def report(a, mod, results, wall, seed, extra=None):
  import z3
  from symrun import core
  pid = a.pid
  agg = {"q": {"sat": 0, "unsat": 0, "unknown": 0}}
  for k in ("solver_s", "paths", "decisions", "obligations", "discharged", "witnesses",
            "witness_skipped", "excluded_paths", "maybe_infeasible"):
    agg[k] = 0
  samples, violations, inconcl, errors, opt_inconcl = [], [], [], [], []
  per_harness = {}
  for r in results:
    for k in agg["q"]: agg["q"][k] += r["q"][k]
    for k in ("solver_s", "paths", "decisions", "obligations", "discharged", "witnesses",
              "witness_skipped", "excluded_paths", "maybe_infeasible"):
      agg[k] += r[k]
    ph = per_harness.setdefault(r["harness"], {"tasks": 0, "paths": 0, "obligations": 0,
                                                "discharged": 0, "wall_s": 0.0})
    ph["tasks"] += 1; ph["paths"] += r["paths"]; ph["obligations"] += r["obligations"]
    ph["discharged"] += r["discharged"]; ph["wall_s"] = round(ph["wall_s"] + r["wall_s"], 2)
    samples.extend(r["samples"])
    violations.extend(r["violations"])
    for i in r["inconclusive"]:
      i = dict(i, harness=r["harness"], cfg=r["cfg"])
      (opt_inconcl if r["optional"] else inconcl).append(i)
    for e in r["errors"]:
      e = dict(e, harness=r["harness"], cfg=e.get("cfg", r["cfg"]))
      # an optional attempt claims nothing: its engine trouble (model queries timing out, ...) is reported with it
      if r["optional"]: opt_inconcl.append(dict(e, clause="engine"))
      else: errors.append(e)

  if extra:
    violations.extend(extra.get("violations", []))
    for i in extra.get("inconclusive", []): inconcl.append(dict(i, harness="extra", cfg={}))
  # one telling sample per harness: prefer those with solver-discharged claims and a non-trivial path condition
  best = {}
  for sm in samples:
    score = len(sm.get("claims_discharged") or []) * 3 + len(sm.get("path_condition") or [])
    if sm["harness"] not in best or score > best[sm["harness"]][0]: best[sm["harness"]] = (score, sm)
  samples = [sm for _, sm in sorted(best.values(), key=lambda x: -x[0])][:8]
  known = load_known()
  new_v, known_v = [], []
  seen = set()
  os.makedirs(os.path.join(VERIF, "replays", pid), exist_ok=True)
  for v in violations:
    key = (v["harness"], v["clause"], json.dumps(v["cfg"], sort_keys=True))
    if key in seen: continue
    seen.add(key)
    k = match_known(v, pid, known)
    if k is not None:
      known_v.append((k, v))
    else:
      new_v.append(v)
  lines = []
  printed = set()
  for k, v in known_v:
    if k["id"] in printed: continue
    printed.add(k["id"])
    lines.append("KNOWN-FINDING: property=%s %s" % (pid, k["what"]))
  for n, v in enumerate(new_v):
    path = os.path.join(VERIF, "replays", pid, "%s-%d.json" % (v["harness"], n))
    with open(path, "w") as f:
      json.dump({"property": pid, "harness": v["harness"], "cfg": v["cfg"],
                 "clause": v["clause"], "detail": v["detail"], "model": v["model"],
                 "what": v.get("what"), "trace": v.get("trace")}, f, indent=1, default=str)
    lines.append("VIOLATION property=%s replay=%s" % (pid, path))
    lines.append("  harness=%s clause=%s cfg=%s\n  detail=%s\n  inputs=%s" % (
        v["harness"], v["clause"], json.dumps(v["cfg"]), v["detail"],
        json.dumps({k: x for k, x in (v["model"] or {}).items() if "!" not in k})))

  meta = getattr(mod, "META", {})
  tier = a.tier
  cov = {
      "states": max(agg["paths"], 0),
      "transitions": agg["decisions"] + agg["obligations"],
      "traces_validated_against_impl": agg["witnesses"],
      "samples": samples or [{"note": "no completed path produced a sample"}],
      "obligations": agg["obligations"],
      "discharged": agg["discharged"],
      "queries": agg["q"],
      "solver_time_s": round(agg["solver_s"], 2),
      "slowest_query_s": round(max([r.get("max_q", 0) for r in results] + [0]), 2),
      "paths_explored": agg["paths"],
      "paths_outside_precondition": agg["excluded_paths"],
      "paths_with_unknown_feasibility": agg["maybe_infeasible"],
      "witnesses_skipped": agg["witness_skipped"],
      "generic_witness_disagreements": sum(r.get("generic_disagreements", 0) for r in results),
      "tasks": len(results),
      "per_harness": per_harness,
      "functions_encoded": meta.get("functions", []),
      "bounds": meta.get("bounds", {}).get(tier, meta.get("bounds", {})),
      "outside_bounds": meta.get("outside", ""),
      "stubs": meta.get("stubs", []),
      "inconclusive": (inconcl + opt_inconcl)[:20],
      "inconclusive_optional_count": len(opt_inconcl),
      "engine_errors": errors[:10],
      "known_findings_seen": [k["id"] for k, _ in known_v],
      "engine_versions": {"z3": z3.get_version_string(), "python": sys.version.split()[0]},
      "exhaustive": False,
      "explanation": "states = feasible paths of the real code explored by decision-prefix replay; "
                     "transitions = solver-decided branch decisions + proof obligations; every obligation is "
                     "the query pc AND NOT claim sent to a fresh z3 solver (unsat = holds for all values on the path).",
  }
  if extra: cov.update(extra.get("coverage", {}))
  xs = None
  if a.tier == "thorough" or os.environ.get("VERIF_XSOLVER"):
    xs = cross_solver(results)
    cov["cross_solver"] = xs
  ev = {"property_id": pid, "tier": tier, "seed": seed, "level": "model_checking",
        "coverage": cov, "assumptions": meta.get("assumptions", []),
        "wall_s": round(wall, 2), "violations": len(new_v)}
  if not a.no_evidence and not a.only:
    os.makedirs(os.path.join(VERIF, "evidence"), exist_ok=True)
    with open(os.path.join(VERIF, "evidence", pid + ".json"), "w") as f:
      json.dump(ev, f, indent=1, default=str)

  print("%s %s: tasks=%d paths=%d obligations=%d discharged=%d queries=%s solver=%.1fs slowest_query=%.1fs witnesses=%d wall=%.1fs"
        % (pid, tier, len(results), agg["paths"], agg["obligations"], agg["discharged"],
           agg["q"], agg["solver_s"], max([r.get("max_q", 0) for r in results] + [0]), agg["witnesses"], wall))
  if a.verbose:
    for r in sorted(results, key=lambda r: -r["wall_s"])[:25]:
      print("   %7.1fs paths=%-6d obl=%-7d %s %s" % (r["wall_s"], r["paths"], r["obligations"], r["harness"],
                                                  json.dumps(r["cfg"])))
  for l in lines: print(l)
  rc = 0
  if new_v: rc = 1
  if errors:
    print("ENGINE-ERROR (%d):" % len(errors))
    for e in errors[:5]: print("  ", json.dumps(e, default=str)[:1500])
    rc = rc or 2
  if inconcl:
    print("INCONCLUSIVE (%d):" % len(inconcl))
    for e in inconcl[:5]: print("  ", json.dumps(e, default=str)[:1200])
    rc = rc or 2
  if opt_inconcl:
    print("inconclusive optional sub-obligations (reported, not claimed): %d" % len(opt_inconcl))
  if xs and xs["disagreements"]:
    print("ENGINE-ERROR: %d solver disagreement(s) between z3 %s and %s" % (xs["disagreements"], z3.get_version_string(), xs["solvers"]))
    rc = rc or 2
  if xs: print("cross-solver: %d query verdicts compared with %s, %d disagreements" % (xs["queries_compared"], xs["solvers"], xs["disagreements"]))
  if agg["paths"] == 0 or agg["obligations"] == 0:
    print("ENGINE-ERROR: nothing explored"); rc = rc or 2
  return rc


if __name__ == "__main__":
  sys.exit(main())
