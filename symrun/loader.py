"""Re-executes a module's source file from the repository working tree in a fresh namespace in which chosen
environment modules / builtins are replaced by contract stubs (the source text itself is never rewritten)."""
import os
import sys

_CACHE = {}


def repo():
  return os.environ.get("VERIF_REPO", "/repo")


def load_with_fakes(relpath, fake_modules=None, extra_globals=None, name=None):
  path = os.path.join(repo(), relpath)
  key = (path, os.path.getmtime(path), tuple(sorted(fake_modules or {})), tuple(sorted(extra_globals or {})))
  if key in _CACHE: return _CACHE[key]
  src = open(path).read()
  import audiolazy          # the real package must be fully imported before any module is shadowed
  pkg = "audiolazy"
  ns = {"__name__": name or ("%s.%s__stubbed" % (pkg, os.path.basename(relpath)[:-3])), "__package__": pkg,
        "__file__": path}
  ns.update(extra_globals or {})
  saved = {}
  try:
    for m, obj in (fake_modules or {}).items():
      saved[m] = sys.modules.get(m)
      sys.modules[m] = obj
    exec(compile(src, path, "exec"), ns)
  finally:
    for m, old in saved.items():
      if old is None: sys.modules.pop(m, None)
      else: sys.modules[m] = old
  _CACHE.clear()
  _CACHE[key] = ns
  return ns
