"""Value proxies: the real audiolazy code is executed on these objects.

Sym      real-valued rational function n/d of z3 Real terms (or a constant
         Fraction fast path).  No z3 division is ever emitted.
SymInt   integer-valued term (z3 Int sort), concretised on __index__/__hash__.
SymBool  z3 Bool; __bool__ asks the solver (a path decision).
SymComplex  pair of Sym.
SymElem  element of an uninterpreted sort (all operators are uninterpreted
         functions) - used where only the routing of items matters.
ExactInt int subclass whose true division / float arithmetic stays exact.
"""
import math
import operator
from fractions import Fraction

import z3

import symrun_reg

INF = float("inf")


class Unsupported(BaseException):
  """The engine met something it cannot model: the run is inconclusive."""


class PathAbort(BaseException):
  """Ends the current path silently (assumption infeasible, clause violated...)."""


def cur():
  from . import core
  c = core.Ctx.cur
  if c is None:
    raise Unsupported("proxy used outside an exploration")
  return c


ONE = z3.RealVal(1)


def _S(t):
  return z3.simplify(t, som=True)


def frac_of_float(x):
  """Float constants are read as the decimal literal the programmer wrote."""
  if x != x or x in (INF, -INF):
    raise Unsupported("nan/inf in arithmetic with a symbolic value")
  # the simplest rational that rounds to this double (1./3 -> 1/3, .54 -> 27/50); else its decimal text
  c = Fraction(x).limit_denominator(100000)
  if float(c) == x: return c
  return Fraction(repr(x))


def RV(fr):
  return z3.RealVal(str(fr)) if not isinstance(fr, int) else z3.RealVal(fr)


class ExactInt(int):
  """A concrete integer that never decays into a rounded float."""
  __slots__ = ()

  def _w(self, r):
    if r is NotImplemented:
      return r
    return ExactInt(r) if type(r) is int else r

  def __add__(s, o):
    if isinstance(o, float): return Sym.const(int(s)) + o
    return s._w(int.__add__(s, o))
  def __radd__(s, o):
    if isinstance(o, float): return o + Sym.const(int(s))
    return s._w(int.__radd__(s, o))
  def __sub__(s, o):
    if isinstance(o, float): return Sym.const(int(s)) - o
    return s._w(int.__sub__(s, o))
  def __rsub__(s, o):
    if isinstance(o, float): return o - Sym.const(int(s))
    return s._w(int.__rsub__(s, o))
  def __mul__(s, o):
    if isinstance(o, float): return Sym.const(int(s)) * o
    return s._w(int.__mul__(s, o))
  def __rmul__(s, o):
    if isinstance(o, float): return o * Sym.const(int(s))
    return s._w(int.__rmul__(s, o))
  def __floordiv__(s, o): return s._w(int.__floordiv__(s, o))
  def __rfloordiv__(s, o): return s._w(int.__rfloordiv__(s, o))
  def __mod__(s, o): return s._w(int.__mod__(s, o))
  def __rmod__(s, o): return s._w(int.__rmod__(s, o))
  def __neg__(s): return ExactInt(int.__neg__(s))
  def __pos__(s): return s
  def __abs__(s): return ExactInt(int.__abs__(s))
  def __pow__(s, o, m=None):
    if m is None and isinstance(o, int) and o >= 0:
      return ExactInt(int.__pow__(s, o))
    if m is None and isinstance(o, int):
      return Sym.const(Fraction(int(s)) ** o)
    return int.__pow__(s, o, m)
  def __truediv__(s, o):
    if isinstance(o, (int, float, Fraction)) and not isinstance(o, bool):
      return Sym.const(int(s)) / o
    return NotImplemented
  def __rtruediv__(s, o):
    if isinstance(o, (int, float, Fraction)) and not isinstance(o, bool):
      return o / Sym.const(int(s))
    return NotImplemented
  def __repr__(s): return int.__repr__(s)
  __str__ = __repr__
  def __format__(s, spec): return int.__format__(int(s), spec)
  def __hash__(s): return int.__hash__(s)
  def __eq__(s, o): return int.__eq__(s, o)
  def __ne__(s, o): return int.__ne__(s, o)


def _bterm(b):
  if isinstance(b, SymBool):
    return b.t
  if isinstance(b, (bool, int)):
    return z3.BoolVal(bool(b))
  if z3.is_expr(b):
    return b
  raise Unsupported("not a boolean: %r" % (b,))


class SymBool:
  __slots__ = ("t",)

  def __init__(self, t):
    self.t = t

  def __bool__(self):
    return cur().decide(self.t)

  def __and__(self, o): return SymBool(z3.And(self.t, _bterm(o)))
  __rand__ = __and__
  def __or__(self, o): return SymBool(z3.Or(self.t, _bterm(o)))
  __ror__ = __or__
  def __invert__(self): return SymBool(z3.Not(self.t))
  def __xor__(self, o): return SymBool(z3.Xor(self.t, _bterm(o)))
  __rxor__ = __xor__
  def __eq__(self, o): return SymBool(self.t == _bterm(o))
  def __ne__(self, o): return SymBool(self.t != _bterm(o))
  def __hash__(self): return id(self)
  def __repr__(self): return "SymBool(%s)" % self.t
  def __pos__(self): return int(bool(self))
  def __neg__(self): return -int(bool(self))
  # arithmetic on booleans (sum(...) of comparisons, int(b)) forks
  def __index__(self): return int(bool(self))
  def __int__(self): return int(bool(self))
  def __add__(self, o): return int(bool(self)) + o
  __radd__ = __add__
  def __mul__(self, o): return int(bool(self)) * o
  __rmul__ = __mul__


def And(*bs):
  bs = [b for b in bs]
  if all(isinstance(b, (bool, int)) and not isinstance(b, SymBool) for b in bs):
    return all(bs)
  return SymBool(z3.And(*[_bterm(b) for b in bs]))


def Or(*bs):
  if all(isinstance(b, (bool, int)) and not isinstance(b, SymBool) for b in bs):
    return any(bs)
  return SymBool(z3.Or(*[_bterm(b) for b in bs]))


def Not(b):
  if isinstance(b, SymBool):
    return SymBool(z3.Not(b.t))
  return not b


def Implies(a, b):
  return Or(Not(a), b)


def _is_num(x):
  return isinstance(x, (int, float, Fraction)) and not isinstance(x, SymBool)


_CX = object()
_INF = object()


def _tsize(t, cap):
  """number of AST nodes of t (DAG-aware), stopping at cap"""
  seen = set(); stack = [t]; n = 0
  while stack:
    e = stack.pop()
    i = e.get_id()
    if i in seen: continue
    seen.add(i); n += 1
    if n > cap: return n
    stack.extend(e.children())
  return n


class Sym:
  """Real-valued symbolic number n/d (d is None for 1); c = constant value."""
  __slots__ = ("c", "n", "d")
  __array_priority__ = 1000

  def __init__(self, n=None, d=None, c=None):
    self.c = c
    if c is None:
      # z3.simplify(som=True) on a huge product can run for hours inside C code (no watchdog can interrupt it)
      if _tsize(n, 20000) > 20000:
        raise Unsupported("symbolic term grew beyond 20000 nodes before normalisation (degree blow-up)")
      n = _S(n)
      if d is not None:
        d = _S(d)
        if z3.is_rational_value(d):
          dv = Fraction(d.numerator_as_long(), d.denominator_as_long())
          n = _S(n * RV(1 / dv)); d = None
      if d is None and z3.is_rational_value(n):
        self.c = Fraction(n.numerator_as_long(), n.denominator_as_long())
        n = None
      elif d is not None and z3.is_rational_value(n) and n.numerator_as_long() == 0:
        self.c = Fraction(0); n = None; d = None
    self.n, self.d = n, d

  @staticmethod
  def const(v):
    if isinstance(v, float):
      v = frac_of_float(v)
    return Sym(c=Fraction(v))

  @staticmethod
  def var(name):
    return Sym(z3.Real(name))

  # -- representation helpers
  def num(self):
    return RV(self.c) if self.c is not None else self.n

  def den(self):
    return ONE if (self.c is not None or self.d is None) else self.d

  def eq0(self):
    """z3 constraint (or Python bool for a constant) stating self == 0"""
    return (self.c == 0) if self.c is not None else (self.n == 0)

  def term(self):
    """A z3 term usable in claims; emits division only when unavoidable."""
    if self.c is not None: return RV(self.c)
    return self.n if self.d is None else self.n / self.d

  @staticmethod
  def of(x):
    if isinstance(x, Sym): return x
    if isinstance(x, SymBool): return None
    if isinstance(x, bool): return Sym(c=Fraction(int(x)))
    if isinstance(x, int): return Sym(c=Fraction(int(x)))
    if isinstance(x, Fraction): return Sym(c=x)
    if isinstance(x, float): return Sym(c=frac_of_float(x))
    return None

  # -- arithmetic
  def _pair(self, o):
    if isinstance(o, (complex, SymComplex)) and not isinstance(o, (int, float)):
      return _CX
    if isinstance(o, float) and (o != o or o in (INF, -INF)):
      return _INF
    return Sym.of(o)

  def __add__(self, o):
    p = self._pair(o)
    if p is None: return NotImplemented
    if p is _CX: return SymComplex.of(self) + o
    if p is _INF: return o
    if self.c is not None and p.c is not None: return Sym(c=self.c + p.c)
    if p.c is not None and p.c == 0: return self
    if self.c is not None and self.c == 0: return p
    n1, d1, n2, d2 = self.num(), self.d if self.c is None else None, p.num(), p.d if p.c is None else None
    if d1 is None and d2 is None: return Sym(n1 + n2)
    if d1 is not None and d2 is not None and d1.eq(d2): return Sym(n1 + n2, d1)
    if d1 is None: return Sym(n1 * d2 + n2, d2)
    if d2 is None: return Sym(n1 + n2 * d1, d1)
    return Sym(n1 * d2 + n2 * d1, d1 * d2)
  __radd__ = __add__

  def __neg__(self):
    if self.c is not None: return Sym(c=-self.c)
    return Sym(-self.n, self.d)

  def __pos__(self): return self

  def __sub__(self, o):
    p = self._pair(o)
    if p is None: return NotImplemented
    if p is _CX: return SymComplex.of(self) - o
    if p is _INF: return -o
    return self + (-p)

  def __rsub__(self, o):
    p = self._pair(o)
    if p is None: return NotImplemented
    if p is _CX: return o - SymComplex.of(self)
    if p is _INF: return o
    return p + (-self)

  def __mul__(self, o):
    p = self._pair(o)
    if p is None: return NotImplemented
    if p is _CX: return SymComplex.of(self) * o
    if p is _INF: raise Unsupported("inf * symbolic")
    if self.c is not None and p.c is not None: return Sym(c=self.c * p.c)
    if self.c is not None:
      self, p = p, self
    if p.c is not None:
      if p.c == 0: return Sym(c=Fraction(0))
      if p.c == 1: return self
      return Sym(self.n * RV(p.c), self.d)
    d = None
    if self.d is not None and p.d is not None: d = self.d * p.d
    elif self.d is not None: d = self.d
    elif p.d is not None: d = p.d
    return Sym(self.n * p.n, d)
  __rmul__ = __mul__

  def _inv(self):
    if self.c is not None:
      if self.c == 0: raise ZeroDivisionError("division by zero")
      return Sym(c=1 / self.c)
    if cur().decide(self.n == 0):
      raise ZeroDivisionError("symbolic division by zero")
    return Sym(self.den(), self.n)

  def __truediv__(self, o):
    p = self._pair(o)
    if p is None: return NotImplemented
    if p is _CX: return SymComplex.of(self) / o
    if p is _INF: return Sym(c=Fraction(0))
    return self * p._inv()

  def __rtruediv__(self, o):
    p = self._pair(o)
    if p is None: return NotImplemented
    if p is _CX: return o / SymComplex.of(self)
    if p is _INF: raise Unsupported("inf / symbolic")
    return p * self._inv()

  def __pow__(self, n):
    if isinstance(n, SymInt): n = n.__index__()
    if isinstance(n, Sym):
      if n.c is None: raise Unsupported("symbolic exponent")
      n = n.c
    if isinstance(n, (float, Fraction)) and n == 0.5 and cur().sqrt_hook is not None:
      return cur().sqrt_hook(self)
    if isinstance(n, float):
      if not n.is_integer(): raise Unsupported("non-integer power %r" % n)
      n = int(n)
    if isinstance(n, Fraction):
      if n.denominator != 1: raise Unsupported("non-integer power %r" % n)
      n = int(n)
    if not isinstance(n, int): return NotImplemented
    if n < 0: return (self ** -n)._inv()
    if self.c is not None: return Sym(c=self.c ** n)
    r = Sym(c=Fraction(1))
    for _ in range(n): r = r * self
    return r

  def __rpow__(self, base):
    h = cur().rpow_hook
    if h is not None:
      return h(base, self)
    if self.c is not None and self.c.denominator == 1 and _is_num(base):
      return Sym.of(base) ** int(self.c)
    raise Unsupported("symbolic exponent")

  # -- sign / comparison (d != 0 is an invariant of every constructed value)
  def _sgn(self):
    """z3 term whose sign is the sign of self."""
    if self.d is None: return self.n
    return _S(self.n * self.d)

  def _cmp(self, o, op):
    if isinstance(o, float) and (o != o or o in (INF, -INF)):
      if o != o: return op == "!="
      return {"<": o > 0, "<=": o > 0, ">": o < 0, ">=": o < 0, "==": False, "!=": True}[op]
    if isinstance(o, (complex, SymComplex)) and not _is_num(o):
      if op == "==": return SymComplex.of(self) == o
      if op == "!=": return SymComplex.of(self) != o
      return NotImplemented
    r = self.__sub__(o)
    if r is NotImplemented: return NotImplemented
    pyop = {"<": operator.lt, "<=": operator.le, ">": operator.gt,
            ">=": operator.ge, "==": operator.eq, "!=": operator.ne}[op]
    if r.c is not None: return pyop(r.c, 0)
    if op in ("==", "!="):
      return SymBool(pyop(r.n, 0))
    return SymBool(pyop(r._sgn(), 0))

  def __eq__(self, o): return self._cmp(o, "==")
  def __ne__(self, o): return self._cmp(o, "!=")
  def __lt__(self, o): return self._cmp(o, "<")
  def __le__(self, o): return self._cmp(o, "<=")
  def __gt__(self, o): return self._cmp(o, ">")
  def __ge__(self, o): return self._cmp(o, ">=")

  def __bool__(self):
    if self.c is not None: return self.c != 0
    return cur().decide(self.n != 0)

  def __abs__(self):
    if self.c is not None: return Sym(c=abs(self.c))
    return -self if cur().decide(self._sgn() < 0) else self

  def __hash__(self):
    if self.c is not None:
      return hash(self.c)
    return cur().hash_of(self)

  def __float__(self):
    if self.c is not None: return float(self.c)
    raise Unsupported("float() of a symbolic value")

  def __complex__(self):
    raise Unsupported("complex() of a symbolic value")

  # -- rounding: concretise floor(x) through the solver
  def _floor(self):
    if self.c is not None: return ExactInt(math.floor(self.c))
    return ExactInt(cur().floor_of(self))

  def __floor__(self): return self._floor()
  def __ceil__(self): return ExactInt(-int((-self)._floor()))
  def __trunc__(self):
    if self.c is not None: return ExactInt(math.trunc(self.c))
    if cur().decide(self._sgn() < 0): return ExactInt(-int((-self)._floor()))
    return self._floor()
  def __int__(self): return int(self.__trunc__())
  def __round__(self, nd=None):
    if nd is not None: raise Unsupported("round(x, ndigits) on symbolic")
    if self.c is not None: return ExactInt(round(self.c))
    # Python rounds half to even
    f = self._floor()
    r = self - f
    if bool(r < Fraction(1, 2)): return f
    if bool(r > Fraction(1, 2)): return f + 1
    return f if int(f) % 2 == 0 else f + 1

  def __divmod__(self, o):
    p = Sym.of(o)
    if p is None: return NotImplemented
    if p.c is None: raise Unsupported("symbolic modulus")
    if p.c == 0: raise ZeroDivisionError("modulo by zero")
    if self.c is not None:
      q = math.floor(self.c / p.c)
      return Sym(c=Fraction(q)), Sym(c=self.c - q * p.c)
    q = cur().floor_term(self / p.c)        # SymInt, symbolic
    return q.as_real(), self - q.as_real() * p.c

  def __rdivmod__(self, o):
    if self.c is None: raise Unsupported("symbolic modulus")
    p = Sym.of(o)
    if p is None: return NotImplemented
    return divmod(p, self.c)

  def __mod__(self, o):
    r = self.__divmod__(o)
    return r if r is NotImplemented else r[1]
  def __rmod__(self, o):
    r = self.__rdivmod__(o)
    return r if r is NotImplemented else r[1]
  def __floordiv__(self, o):
    r = self.__divmod__(o)
    return r if r is NotImplemented else r[0]
  def __rfloordiv__(self, o):
    r = self.__rdivmod__(o)
    return r if r is NotImplemented else r[0]

  def is_integer(self):
    if self.c is not None: return self.c.denominator == 1
    raise Unsupported("is_integer on symbolic real")

  @property
  def real(self): return self
  @property
  def imag(self): return Sym(c=Fraction(0))
  def conjugate(self): return self

  # -- text: survive str()/format() through the registry
  def __format__(self, spec):
    return cur().render(self)
  def __str__(self):
    return cur().render(self)
  def __repr__(self):
    if self.c is not None: return "Sym(%s)" % self.c
    return "Sym(%s / %s)" % (self.n, self.den())

  # -- evaluation under a model
  def value(self, model):
    if self.c is not None: return self.c
    from .core import model_value
    n = model_value(model, self.n)
    d = model_value(model, self.d) if self.d is not None else 1
    return n / d


class SymInt(Sym):
  """Integer-valued symbolic number: self.i is a z3 Int term (or None if const)."""
  __slots__ = ("i",)

  def __init__(self, i=None, c=None):
    if c is not None:
      self.i = None
      Sym.__init__(self, c=Fraction(int(c)))
      return
    i = z3.simplify(i)
    b = cur().bound_of(i)
    if b is not None:
      i = z3.IntVal(b)
    if z3.is_int_value(i):
      self.i = None
      Sym.__init__(self, c=Fraction(i.as_long()))
    else:
      self.i = i
      self.c = None; self.n = z3.ToReal(i); self.d = None

  @staticmethod
  def ofint(x):
    if isinstance(x, SymInt): return x
    if isinstance(x, bool): return SymInt(c=int(x))
    if isinstance(x, int): return SymInt(c=int(x))
    return None

  def iterm(self):
    if self.c is not None: return z3.IntVal(int(self.c))
    b = cur().bound_of(self.i)
    return z3.IntVal(b) if b is not None else self.i

  def as_real(self):
    if self.c is not None: return Sym(c=self.c)
    b = cur().bound_of(self.i)
    if b is not None: return Sym(c=Fraction(b))
    return Sym(z3.ToReal(self.i))

  def _cur(self):
    """Self with a bound variable replaced by its value."""
    if self.c is None:
      b = cur().bound_of(self.i)
      if b is not None: return SymInt(c=b)
    return self

  def _ibin(self, o, f, fc):
    p = SymInt.ofint(o)
    if p is None: return None
    a, p = self._cur(), p._cur()
    if a.c is not None and p.c is not None: return SymInt(c=fc(int(a.c), int(p.c)))
    return SymInt(f(a.iterm(), p.iterm()))

  def __add__(self, o):
    r = self._ibin(o, operator.add, operator.add)
    return r if r is not None else self.as_real().__add__(o)
  __radd__ = __add__
  def __sub__(self, o):
    r = self._ibin(o, operator.sub, operator.sub)
    return r if r is not None else self.as_real().__sub__(o)
  def __rsub__(self, o):
    p = SymInt.ofint(o)
    if p is not None: return p.__sub__(self)
    return self.as_real().__rsub__(o)
  def __mul__(self, o):
    r = self._ibin(o, operator.mul, operator.mul)
    return r if r is not None else self.as_real().__mul__(o)
  __rmul__ = __mul__
  def __neg__(self):
    a = self._cur()
    return SymInt(c=-int(a.c)) if a.c is not None else SymInt(-a.i)
  def __pos__(self): return self
  def __abs__(self):
    a = self._cur()
    if a.c is not None: return SymInt(c=abs(int(a.c)))
    return -a if cur().decide(a.i < 0) else a
  def __truediv__(self, o): return self.as_real().__truediv__(o)
  def __rtruediv__(self, o): return self.as_real().__rtruediv__(o)
  def __pow__(self, n):
    a = self._cur()
    if isinstance(n, SymInt): n = n.__index__()
    if isinstance(n, int) and n >= 0:
      if a.c is not None: return SymInt(c=int(a.c) ** n)
      r = SymInt(c=1)
      for _ in range(n): r = r * a
      return r
    return a.as_real().__pow__(n)

  def __divmod__(self, o):
    p = SymInt.ofint(o)
    if p is None: return self.as_real().__divmod__(o)
    a, p = self._cur(), p._cur()
    if p.c is None:
      p = SymInt(c=p.__index__())
    m = int(p.c)
    if m == 0: raise ZeroDivisionError("integer modulo by zero")
    if a.c is not None:
      q, r = divmod(int(a.c), m)
      return SymInt(c=q), SymInt(c=r)
    if m > 0:
      return SymInt(a.i / m), SymInt(a.i % m)      # z3: floor div for m > 0
    # Python floor semantics for a negative modulus
    q = SymInt(-((-a.i) / (-m))) if False else None
    raise Unsupported("negative integer modulus on a symbolic int")
  def __rdivmod__(self, o):
    p = SymInt.ofint(o)
    if p is None: return self.as_real().__rdivmod__(o)
    return p.__divmod__(self)
  def __floordiv__(self, o):
    r = self.__divmod__(o); return r if r is NotImplemented else r[0]
  def __rfloordiv__(self, o):
    r = self.__rdivmod__(o); return r if r is NotImplemented else r[0]
  def __mod__(self, o):
    r = self.__divmod__(o); return r if r is NotImplemented else r[1]
  def __rmod__(self, o):
    r = self.__rdivmod__(o); return r if r is NotImplemented else r[1]

  def __rshift__(self, n):
    if isinstance(n, SymInt): n = n.__index__()
    if not isinstance(n, int) or n < 0: return NotImplemented
    return self // (1 << n)
  def __lshift__(self, n):
    if isinstance(n, SymInt): n = n.__index__()
    if not isinstance(n, int) or n < 0: return NotImplemented
    return self * (1 << n)
  def __rlshift__(self, o):
    return o << self.__index__()
  def __rrshift__(self, o):
    return o >> self.__index__()

  def _cmp(self, o, op):
    p = SymInt.ofint(o)
    if p is None: return Sym._cmp(self.as_real(), o, op)
    a, p = self._cur(), p._cur()
    pyop = {"<": operator.lt, "<=": operator.le, ">": operator.gt,
            ">=": operator.ge, "==": operator.eq, "!=": operator.ne}[op]
    if a.c is not None and p.c is not None: return pyop(a.c, p.c)
    return SymBool(pyop(a.iterm(), p.iterm()))

  def __eq__(self, o): return self._cmp(o, "==")
  def __ne__(self, o): return self._cmp(o, "!=")
  def __lt__(self, o): return self._cmp(o, "<")
  def __le__(self, o): return self._cmp(o, "<=")
  def __gt__(self, o): return self._cmp(o, ">")
  def __ge__(self, o): return self._cmp(o, ">=")

  def __bool__(self):
    a = self._cur()
    if a.c is not None: return a.c != 0
    return cur().decide(a.i != 0)

  def __index__(self):
    a = self._cur()
    if a.c is not None: return int(a.c)
    return cur().concretize(a.i)
  def __int__(self): return self.__index__()
  def __trunc__(self): return self
  def __floor__(self): return self
  def __ceil__(self): return self
  def __round__(self, nd=None): return self
  def __hash__(self): return hash(self.__index__())
  def __float__(self): raise Unsupported("float() of a symbolic int")
  def is_integer(self): return True
  def __repr__(self):
    return "SymInt(%s)" % (int(self.c) if self.c is not None else self.i)
  def value(self, model):
    if self.c is not None: return int(self.c)
    from .core import model_value
    return int(model_value(model, self.i))


class SymComplex:
  __slots__ = ("re", "im")

  def __init__(self, re, im=0):
    self.re = re if isinstance(re, Sym) else Sym.of(re)
    self.im = im if isinstance(im, Sym) else Sym.of(im)

  @staticmethod
  def of(o):
    if isinstance(o, SymComplex): return o
    if isinstance(o, Sym): return SymComplex(o, Sym(c=Fraction(0)))
    if isinstance(o, complex): return SymComplex(Sym.const(o.real), Sym.const(o.imag))
    s = Sym.of(o)
    if s is not None: return SymComplex(s, Sym(c=Fraction(0)))
    return None

  def __add__(s, o):
    o = SymComplex.of(o)
    return NotImplemented if o is None else SymComplex(s.re + o.re, s.im + o.im)
  __radd__ = __add__
  def __neg__(s): return SymComplex(-s.re, -s.im)
  def __pos__(s): return s
  def __sub__(s, o):
    o = SymComplex.of(o)
    return NotImplemented if o is None else SymComplex(s.re - o.re, s.im - o.im)
  def __rsub__(s, o):
    o = SymComplex.of(o)
    return NotImplemented if o is None else SymComplex(o.re - s.re, o.im - s.im)
  def __mul__(s, o):
    o = SymComplex.of(o)
    if o is None: return NotImplemented
    return SymComplex(s.re * o.re - s.im * o.im, s.re * o.im + s.im * o.re)
  __rmul__ = __mul__
  def norm2(s): return s.re * s.re + s.im * s.im
  def __truediv__(s, o):
    o = SymComplex.of(o)
    if o is None: return NotImplemented
    d = o.norm2()
    return SymComplex((s.re * o.re + s.im * o.im) / d, (s.im * o.re - s.re * o.im) / d)
  def __rtruediv__(s, o):
    o = SymComplex.of(o)
    return NotImplemented if o is None else o / s
  def __pow__(s, n):
    if isinstance(n, SymInt): n = n.__index__()
    if isinstance(n, float) and n.is_integer(): n = int(n)
    if not isinstance(n, int): raise Unsupported("complex ** non-int")
    if n < 0: return 1 / (s ** -n)
    r = SymComplex(Sym(c=Fraction(1)), Sym(c=Fraction(0)))
    for _ in range(n): r = r * s
    return r
  def conjugate(s): return SymComplex(s.re, -s.im)
  @property
  def real(s): return s.re
  @property
  def imag(s): return s.im
  def __eq__(s, o):
    o = SymComplex.of(o)
    if o is None: return NotImplemented
    return And(s.re == o.re, s.im == o.im)
  def __ne__(s, o):
    r = s.__eq__(o)
    return r if r is NotImplemented else Not(r)
  def __bool__(s): return bool(Not(And(s.re == 0, s.im == 0)))
  def __hash__(s): raise Unsupported("hash of a symbolic complex")
  def __abs__(s):
    h = cur().sqrt_hook
    if h is None: raise Unsupported("abs() of symbolic complex needs the sqrt stub")
    return h(s.norm2())
  def __repr__(s): return "SymComplex(%r, %r)" % (s.re, s.im)
  def __format__(s, spec): return cur().render(s)
  __str__ = lambda s: cur().render(s)
  def value(s, model):
    return (s.re.value(model), s.im.value(model))


_UOPS = {}


class SymElem:
  """Element of an uninterpreted sort; every operator is an uninterpreted
  function, so only the *routing* of elements through the code matters."""
  __slots__ = ("t",)
  SORT = z3.DeclareSort("Elem")

  def __init__(self, t):
    self.t = t

  @staticmethod
  def fn(name, arity):
    k = (name, arity)
    if k not in _UOPS:
      _UOPS[k] = z3.Function("op_" + name, *([SymElem.SORT] * (arity + 1)))
    return _UOPS[k]

  @staticmethod
  def lift(o):
    if isinstance(o, SymElem): return o
    return cur().elem_const(o)

  def _b(name):
    def m(self, o):
      if hasattr(type(o), "__iter__"): return NotImplemented     # a scalar defers to containers / Streams
      return SymElem(SymElem.fn(name, 2)(self.t, SymElem.lift(o).t))
    return m

  def _r(name):
    def m(self, o):
      if hasattr(type(o), "__iter__"): return NotImplemented
      return SymElem(SymElem.fn(name, 2)(SymElem.lift(o).t, self.t))
    return m

  def _u(name):
    def m(self):
      return SymElem(SymElem.fn(name, 1)(self.t))
    return m

  for _n in ("add sub mul truediv floordiv mod pow rshift lshift and or xor "
             "matmul lt le eq ne gt ge").split():
    locals()["__%s__" % _n] = _b(_n)
  for _n in ("add sub mul truediv floordiv mod pow rshift lshift and or xor "
             "matmul").split():
    locals()["__r%s__" % _n] = _r(_n)
  for _n in "pos neg invert abs".split():
    locals()["__%s__" % _n] = _u(_n)
  del _n, _b, _r, _u

  def __hash__(self): return id(self)
  def __bool__(self):
    return cur().decide(z3.Function("truthy", SymElem.SORT, z3.BoolSort())(self.t))
  def __repr__(self): return "Elem(%s)" % self.t
  def __getattr__(self, name):
    if name.startswith("__"): raise AttributeError(name)
    return SymElem(SymElem.fn("attr_" + name, 1)(self.t))
  def __call__(self, *args):
    return SymElem(SymElem.fn("call%d" % len(args), 1 + len(args))(
        self.t, *[SymElem.lift(a).t for a in args]))


class ConcElem:
  """Concrete counterpart of SymElem for native replays: the free term algebra (Herbrand interpretation).
  Every operator builds a structural term, so routing errors show up as structurally different terms."""
  __slots__ = ("v",)

  def __init__(self, v):
    self.v = v

  @staticmethod
  def lift(o):
    if isinstance(o, ConcElem): return o
    return ConcElem(("k", type(o).__name__, repr(o)))

  def _b(name):
    def m(self, o):
      if hasattr(type(o), "__iter__"): return NotImplemented
      return ConcElem((name, self.v, ConcElem.lift(o).v))
    return m
  def _r(name):
    def m(self, o):
      if hasattr(type(o), "__iter__"): return NotImplemented
      return ConcElem((name, ConcElem.lift(o).v, self.v))
    return m
  def _u(name):
    def m(self): return ConcElem((name, self.v))
    return m
  for _n in ("add sub mul truediv floordiv mod pow rshift lshift and or xor "
             "matmul lt le eq ne gt ge").split():
    locals()["__%s__" % _n] = _b(_n)
  for _n in ("add sub mul truediv floordiv mod pow rshift lshift and or xor "
             "matmul").split():
    locals()["__r%s__" % _n] = _r(_n)
  for _n in "pos neg invert abs".split():
    locals()["__%s__" % _n] = _u(_n)
  del _n, _b, _r, _u

  def __hash__(self): return hash(self.v)
  def __bool__(self): raise Unsupported("truth value of a concrete free-algebra element")
  def __repr__(self): return "CElem%r" % (self.v,)
  def __getattr__(self, name):
    if name.startswith("__"): raise AttributeError(name)
    return ConcElem(("attr_" + name, self.v))
  def __call__(self, *args):
    return ConcElem(("call%d" % len(args), self.v) + tuple(ConcElem.lift(a).v for a in args))


def same(a, b):
  """Meta-level identity of two element terms (not the == operator)."""
  if isinstance(a, SymElem) or isinstance(b, SymElem):
    return SymBool(SymElem.lift(a).t == SymElem.lift(b).t)
  if isinstance(a, ConcElem) or isinstance(b, ConcElem):
    return ConcElem.lift(a).v == ConcElem.lift(b).v
  return a == b
