"""Containers whose key lookup is decided by the solver."""


class SymDict:
  """Association list standing for `dict`: key equality goes through == and bool(), so symbolic keys fork on the
  solver instead of being hashed.  Insertion-ordered like dict."""

  def __init__(self, *a, **kw):
    self._items = []
    if a:
      src = a[0]
      # like dict(x): a mapping is read through keys() and [] (what CPython does for anything that is not a plain
      # dict), anything else is an iterable of pairs; no hashing anywhere
      pairs = [(k, src[k]) for k in src.keys()] if hasattr(src, "keys") else [tuple(p) for p in src]
      for k, v in pairs:
        SymDict.__setitem__(self, k, v)
    for k, v in kw.items():
      SymDict.__setitem__(self, k, v)

  def _find(self, k):
    for i, (kk, _) in enumerate(self._items):
      if type(kk) is tuple or type(k) is tuple:
        if type(kk) is tuple and type(k) is tuple and len(kk) == len(k) and all(bool(a == b) for a, b in zip(kk, k)):
          return i
        continue
      if isinstance(kk, str) or isinstance(k, str):
        if isinstance(kk, str) and isinstance(k, str) and kk == k: return i
        continue
      if bool(kk == k): return i
    return -1

  def __contains__(self, k): return self._find(k) >= 0

  def __getitem__(self, k):
    i = self._find(k)
    if i < 0: raise KeyError(k)
    return self._items[i][1]

  def __setitem__(self, k, v):
    i = self._find(k)
    if i < 0: self._items.append((k, v))
    else: self._items[i] = (self._items[i][0], v)

  def __delitem__(self, k):
    i = self._find(k)
    if i < 0: raise KeyError(k)
    del self._items[i]

  def get(self, k, d=None):
    i = self._find(k)
    return d if i < 0 else self._items[i][1]

  def pop(self, k, *d):
    i = self._find(k)
    if i < 0:
      if d: return d[0]
      raise KeyError(k)
    return self._items.pop(i)[1]

  def __len__(self): return len(self._items)
  def __iter__(self): return iter([k for k, _ in self._items])
  def keys(self): return [k for k, _ in self._items]
  def values(self): return [v for _, v in self._items]
  def items(self): return list(self._items)
  def __bool__(self): return bool(self._items)
  def __eq__(self, o): return self is o
  def __ne__(self, o): return self is not o
  __hash__ = None
