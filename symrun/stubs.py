"""Environment stubs: C-level library functions replaced by contracts over proxies.

`patched(module, name=obj, ...)` temporarily rebinds module attributes (restored on exit);
every stub falls back to the real function for plain Python numbers, so the same harness
runs natively in concrete mode.
"""
import contextlib
import math
import cmath
from fractions import Fraction

import z3

from .nums import Sym, SymInt, SymComplex, SymBool, Unsupported, cur, RV, ExactInt, frac_of_float, Or


@contextlib.contextmanager
def patched(*targets, **names):
  """targets: modules or dicts (e.g. function.__globals__)."""
  saved = []
  try:
    for t in targets:
      d = t if isinstance(t, dict) else vars(t)
      for k, v in names.items():
        if k in d:
          saved.append((d, k, d[k]))
          d[k] = v
    yield
  finally:
    for d, k, v in reversed(saved):
      d[k] = v


class Hermetic:
  """Restores the contents of every mutable container (dict/list/set) found in the given namespaces when the block ends,
  so that module-level caches cannot leak values (or proxies) from one explored path / replay into the next."""
  def __init__(self, *namespaces):
    self.ns = [n if isinstance(n, dict) else vars(n) for n in namespaces]
  def __enter__(self):
    self.saved = []
    for d in self.ns:
      for k, v in list(d.items()):
        if type(v) in (dict, list, set):
          self.saved.append((v, type(v)(v)))
    return self
  def __exit__(self, *a):
    for v, old in self.saved:
      if isinstance(v, list): v[:] = old
      else:
        v.clear(); v.update(old)
    return False


class HermeticPackage:
  """Module state of a whole package is per run: every plain dict / list / set reachable as a module global, or as an
  attribute of a class or function defined in one of the package's modules (memo tables, registries, caches), gets the
  contents it had when the block was entered; globals and function attributes *created* inside the block are removed.
  One explored path (or one native replay) therefore behaves like one fresh process, and whatever the code caches
  within a path is still observed by the rest of that path."""
  def __init__(self, package="audiolazy"):
    self.package = package
  def _namespaces(self):
    import sys, types
    out = []
    for name, mod in list(sys.modules.items()):
      if mod is None or not (name == self.package or name.startswith(self.package + ".")): continue
      if ".tests" in name: continue
      d = vars(mod)
      out.append(d)
      for v in list(d.values()):
        if isinstance(v, (type, types.FunctionType)) and getattr(v, "__module__", None) == name:
          try: out.append(vars(v))
          except TypeError: pass
    return out
  def __enter__(self):
    self.saved, self.keys = [], []
    for d in self._namespaces():
      self.keys.append((d, set(d.keys())))
      for k, v in list(d.items()):
        if type(v) in (dict, list, set):
          self.saved.append((v, type(v)(v)))
    return self
  def __exit__(self, *a):
    for v, old in self.saved:
      try:
        if isinstance(v, list): v[:] = old
        else:
          v.clear(); v.update(old)
      except Exception:
        pass
    for d, keys in self.keys:
      try:
        for k in [k for k in list(d.keys()) if k not in keys]:
          if isinstance(d, dict): d.pop(k, None)
      except Exception:
        pass
    return False


def isinf(x):
  if isinstance(x, (Sym, SymInt)): return False
  return math.isinf(x)


def isnan(x):
  if isinstance(x, (Sym, SymInt)): return False
  return math.isnan(x)


# ---------------------------------------------------------------------------
# sqrt: fork on x < 0 (ValueError like math.sqrt), else fresh r >= 0 with r*r == x
# ---------------------------------------------------------------------------
class SqrtStub:
  def __init__(self):
    self.cache = {}

  def __call__(self, x):
    if isinstance(x, SymComplex):
      raise Unsupported("sqrt of a symbolic complex")
    if not isinstance(x, Sym):
      if isinstance(x, complex): return cmath.sqrt(x)
      if isinstance(x, ExactInt): x = int(x)
      if isinstance(x, (int, Fraction)) and x >= 0:
        fr = Fraction(x)
        rn, rd = math.isqrt(fr.numerator), math.isqrt(fr.denominator)
        if rn * rn == fr.numerator and rd * rd == fr.denominator:
          return Fraction(rn, rd) if cur_mode_sym() else math.sqrt(x)
        if cur_mode_sym():
          x = Sym.const(fr)
        else:
          return math.sqrt(x)
      else:
        return math.sqrt(x)
    ctx = cur()
    if x.c is not None:
      if x.c < 0: raise ValueError("math domain error")
      fr = x.c
      rn, rd = math.isqrt(fr.numerator), math.isqrt(fr.denominator)
      if rn * rn == fr.numerator and rd * rd == fr.denominator:
        return Sym.const(Fraction(rn, rd))
      key = ("c", fr)
    else:
      if bool(x < 0): raise ValueError("math domain error")
      key = ("t", x.n.get_id(), x.d.get_id() if x.d is not None else 0)
    if key in self.cache: return self.cache[key]
    r = ctx.fresh_real("sqrt")
    ctx._add(r.n >= 0)
    # r*r == x  (cross-multiplied)
    ctx._add((r * r - x).n == 0)
    self.cache[key] = r
    return r


def cur_mode_sym():
  from . import core
  return core.Ctx.cur is not None


# ---------------------------------------------------------------------------
# exp: fresh E > 0 per distinct argument with sign facts and additive links
# ---------------------------------------------------------------------------
class ExpStub:
  def __init__(self):
    self.args = []        # list of (Sym argument, Sym value)

  def __call__(self, x):
    if not isinstance(x, Sym):
      if isinstance(x, complex): return cmath.exp(x)
      if cur_mode_sym() and isinstance(x, (int, Fraction, ExactInt)) and x == 0:
        return 1
      if cur_mode_sym() and isinstance(x, (int, float, Fraction)):
        x = Sym.of(x)
      else:
        return math.exp(x)
    ctx = cur()
    if x.c is not None and x.c == 0: return Sym.const(1)
    for a, v in self.args:
      d = a - x
      if d.c is not None and d.c == 0: return v
    E = ctx.fresh_real("exp")
    ctx._add(E.n > 0)
    if x.c is not None:
      ctx._add(E.n > 1 if x.c > 0 else E.n < 1)
    else:
      s = x._sgn()
      ctx._add(z3.And(z3.Implies(s < 0, E.n < 1), z3.Implies(s == 0, E.n == 1), z3.Implies(s > 0, E.n > 1)))
    # links: exp(a) = exp(b)^k when a = k*b for small integers k; exp(a+b) = exp(a)exp(b)
    for a, v in self.args:
      for k in (2, 3, 4, -1, -2):
        if _is_zero(x - a * k): ctx._add((E - v ** k).n == 0) if k > 0 else ctx._add((E * v ** (-k) - 1).n == 0)
        if _is_zero(a - x * k): ctx._add((v - E ** k).n == 0) if k > 0 else ctx._add((v * E ** (-k) - 1).n == 0)
    for i, (a, v) in enumerate(self.args):
      for b, w in self.args[i + 1:]:
        if _is_zero(x - a - b): ctx._add((E - v * w).n == 0)
    self.args.append((x, E))
    return E

  def rpow(self, base, x):
    """e ** x"""
    if abs(float(base) - math.e) < 1e-12:
      return self(x)
    raise Unsupported("symbolic exponent with base %r" % (base,))


def _is_zero(s):
  return isinstance(s, Sym) and s.c is not None and s.c == 0


# ---------------------------------------------------------------------------
# trigonometry
# ---------------------------------------------------------------------------
class Angle:
  """Exact rational multiple of pi: value = q*pi (+ optionally symbolic part)."""
  __slots__ = ("q", "sym")

  def __init__(self, q, sym=None):
    self.q = Fraction(q); self.sym = sym

  def _c(self, o):
    if isinstance(o, Angle): return o
    return None

  def __mul__(self, o):
    if isinstance(o, Angle): raise Unsupported("pi * pi")
    if isinstance(o, (int, Fraction, ExactInt)) and not isinstance(o, bool):
      return Angle(self.q * Fraction(int(o) if isinstance(o, ExactInt) else o))
    if isinstance(o, float): return Angle(self.q * frac_of_float(o))
    if isinstance(o, Sym):
      if o.c is not None: return Angle(self.q * o.c)
      raise Unsupported("pi times a symbolic value")
    return NotImplemented
  __rmul__ = __mul__

  def __truediv__(self, o):
    if isinstance(o, (int, Fraction, ExactInt)) and not isinstance(o, bool): return Angle(self.q / Fraction(int(o) if isinstance(o, ExactInt) else o))
    if isinstance(o, float): return Angle(self.q / frac_of_float(o))
    if isinstance(o, Sym) and o.c is not None: return Angle(self.q / o.c)
    if isinstance(o, Angle): return Sym.const(self.q / o.q)
    return NotImplemented

  def __add__(self, o):
    if isinstance(o, Angle): return Angle(self.q + o.q)
    if o == 0: return self
    return NotImplemented
  __radd__ = __add__
  def __sub__(self, o):
    if isinstance(o, Angle): return Angle(self.q - o.q)
    if o == 0: return self
    return NotImplemented
  def __rsub__(self, o):
    if o == 0: return Angle(-self.q)
    return NotImplemented
  def __neg__(self): return Angle(-self.q)
  def __float__(self): return float(self.q) * math.pi
  def __repr__(self): return "Angle(%s*pi)" % self.q
  def _cmp(self, o, op):
    v = o.q if isinstance(o, Angle) else None
    if v is None:
      return op(float(self), float(o))
    return op(self.q, v)
  def __lt__(self, o): import operator; return self._cmp(o, operator.lt)
  def __le__(self, o): import operator; return self._cmp(o, operator.le)
  def __gt__(self, o): import operator; return self._cmp(o, operator.gt)
  def __ge__(self, o): import operator; return self._cmp(o, operator.ge)
  def __eq__(self, o):
    if isinstance(o, Angle): return self.q == o.q
    if isinstance(o, (int, float)) and o == 0: return self.q == 0
    return False
  def __ne__(self, o): return not self.__eq__(o)
  def __hash__(self): return hash(("Angle", self.q))


class TrigStub:
  """cos/sin over (a) exact rational multiples of pi (Angle) reduced by symmetry to canonical variables in
  [0, pi/2] with exact values at 0, pi/6, pi/4, pi/3, pi/2, and (b) symbolic angles theta registered by the
  harness: one (c, s) pair with c^2+s^2=1 per base angle; integer multiples through de Moivre."""

  EXACT = None

  def __init__(self, ctx=None):
    self.rat = {}          # canonical q in (0, 1/2) -> (cos Sym, sin Sym)
    self.base = []         # list of (Sym theta, c Sym, s Sym)
    self.cctx = ctx        # the harness context (needed in concrete mode)

  def cs_of(self, th):
    """(cos, sin) of a registered base angle (symbolic mode) or of a float"""
    for t, c, s in self.base:
      if t is th: return c, s
    return math.cos(th), math.sin(th)

  def cexp(self, x):
    """exp of a purely imaginary symbolic argument i*phi -> cos(phi) + i sin(phi)"""
    if isinstance(x, SymComplex):
      if not (x.re.c is not None and x.re.c == 0):
        raise Unsupported("complex exponential with a non-zero real part")
      c, s = self.cs(x.im)
      return SymComplex(c, s)
    if isinstance(x, Sym):
      raise Unsupported("complex exponential of a real symbolic argument")
    return cmath.exp(x)

  # ---- symbolic base angles ------------------------------------------
  def angle(self, name, lo=None, hi=None):
    """Registers a symbolic angle; returns the Sym standing for theta.  lo/hi in units of pi (Fractions)
    add the sign facts of that range."""
    if not cur_mode_sym():
      ctx = self.cctx
      c = float(ctx.model.get(name + "_cos", 1)); s = float(ctx.model.get(name + "_sin", 0))
      return math.atan2(s, c) % (2 * math.pi) if (lo is not None and Fraction(hi) > 1) else math.atan2(s, c)
    ctx = cur()
    th = ctx.real(name)
    c = ctx.real(name + "_cos"); s = ctx.real(name + "_sin")
    ctx._add((c * c + s * s - 1).n == 0)
    if lo is not None and hi is not None:
      # theta ranges over the OPEN interval (lo*pi, hi*pi)
      lo, hi = Fraction(lo), Fraction(hi)
      PI = frac_of_float(math.pi)
      ctx._add(z3.And(th.n > RV(lo * PI), th.n < RV(hi * PI)))
      if 0 <= lo and hi <= 1: ctx._add(s.n > 0)
      if 1 <= lo and hi <= 2: ctx._add(s.n < 0)
      if 0 <= lo and hi <= Fraction(1, 2): ctx._add(c.n > 0)
      if Fraction(1, 2) <= lo and hi <= 1: ctx._add(c.n < 0)
    self.base.append((th, c, s))
    return th

  def _match(self, x):
    """x = k*theta + q*pi for a registered theta?  -> (k, c, s, Angle-part q) or None"""
    for th, c, s in self.base:
      for k in (1, 2, 3, 4, 5, 6, -1, -2, -3, -4, 0.5):
        pass
    return None

  def cs(self, x):
    """-> (cos x, sin x) as Sym / exact numbers"""
    if isinstance(x, Angle):
      return self._rational_linked(x.q)
    if isinstance(x, SymSum):
      return self._symsum(x)
    if isinstance(x, Sym):
      if x.c is not None and x.c == 0: return Sym.const(1), Sym.const(0)
      for th, c, s in self.base:
        # x == k * th ?
        for k in range(1, 9):
          if _is_zero(x - th * k): return self._multiple(c, s, k)
          if _is_zero(x + th * k):
            ck, sk = self._multiple(c, s, k); return ck, -sk
      raise Unsupported("cos/sin of an unregistered symbolic angle %r" % (x,))
    return None

  def _rational_linked(self, q):
    """(cos, sin) of q*pi with double-angle links to every angle requested so far (signed expressions)."""
    q = q % 2
    if not hasattr(self, "requested"): self.requested = {}
    if q in self.requested: return self.requested[q]
    C, S = self._rational(q)
    ctx = cur()
    for q2, (C2, S2) in list(self.requested.items()):
      if (2 * q) % 2 == q2:          # q2 = 2q
        ctx._add((Sym.of(C2) - (Sym.of(C) * C * 2 - 1)).eq0()); ctx._add((Sym.of(S2) - Sym.of(S) * C * 2).eq0())
      if (2 * q2) % 2 == q:          # q = 2 q2
        ctx._add((Sym.of(C) - (Sym.of(C2) * C2 * 2 - 1)).eq0()); ctx._add((Sym.of(S) - Sym.of(S2) * C2 * 2).eq0())
    self.requested[q] = (C, S)
    return C, S

  def _multiple(self, c, s, k):
    z = SymComplex(c, s) ** k
    return z.re, z.im

  def _rational(self, q):
    """cos/sin of q*pi by symmetry reduction to (0, 1/2)."""
    q = q % 2
    if q >= 1:
      c, s = self._rational(q - 1); return -c, -s
    if q > Fraction(1, 2):
      c, s = self._rational(1 - q); return -c, s
    # q in [0, 1/2]
    exact = {Fraction(0): (1, 0), Fraction(1, 2): (0, 1)}
    if q in exact:
      c, s = exact[q]; return Sym.const(c), Sym.const(s)
    if q > Fraction(1, 4):
      s, c = self._rational(Fraction(1, 2) - q); return c, s
    if q in self.rat: return self.rat[q]
    ctx = cur()
    c = ctx.fresh_real("cos_%s_%s" % (q.numerator, q.denominator))
    s = ctx.fresh_real("sin_%s_%s" % (q.numerator, q.denominator))
    if not hasattr(self, "truth"): self.truth = {}
    self.truth[str(c.n)] = math.cos(float(q) * math.pi); self.truth[str(s.n)] = math.sin(float(q) * math.pi)
    ctx._add((c * c + s * s - 1).n == 0)
    ctx._add(c.n > 0); ctx._add(s.n > 0)
    if q == Fraction(1, 4):
      ctx._add((c - s).n == 0)                 # cos(pi/4) = sin(pi/4) (=> 2c^2 = 1)
    elif q == Fraction(1, 6):
      ctx._add((s * 2 - 1).n == 0)             # sin(pi/6) = 1/2
    else:
      ctx._add((c - s).n > 0)                  # q < 1/4: cos > sin
    # links with already known angles: double angle and ordering
    for q2, (c2, s2) in list(self.rat.items()):
      if q2 == 2 * q:     # cos 2a = 2cos^2 a - 1, sin 2a = 2 sin a cos a
        ctx._add((c2 - (c * c * 2 - 1)).n == 0); ctx._add((s2 - s * c * 2).n == 0)
      if q == 2 * q2:
        ctx._add((c - (c2 * c2 * 2 - 1)).n == 0); ctx._add((s - s2 * c2 * 2).n == 0)
      if q2 < q: ctx._add((c2 - c).n > 0)
      if q2 > q: ctx._add((c - c2).n > 0)
    # double angle reaching beyond 1/4 (e.g. q = 1/6 -> 1/3 handled by symmetry of the stored 1/6)
    if 2 * q > Fraction(1, 4) and 2 * q < Fraction(1, 2):
      qq = Fraction(1, 2) - 2 * q
      if qq in self.rat:
        c2s, s2s = self.rat[qq]                # cos(2q) = sin(qq), sin(2q) = cos(qq)
        ctx._add((s2s - (c * c * 2 - 1)).n == 0); ctx._add((c2s - s * c * 2).n == 0)
    self.rat[q] = (c, s)
    return c, s

  def acos(self, x):
    """math.acos: ValueError outside [-1, 1]; inside, a fresh registered angle theta in [0, pi] with cos(theta) = x and
    sin(theta) = the non-negative root of 1 - x^2"""
    if not isinstance(x, Sym) or x.c is not None:
      return math.acos(float(x.c) if isinstance(x, Sym) else x)
    ctx = cur()
    if bool(Or(x > 1, x < -1)):
      raise ValueError("math domain error")
    th = ctx.fresh_real("acos"); s = ctx.fresh_real("acos_sin")
    ctx._add(s.n >= 0)
    e = (x * x + s * s - 1).eq0()
    if not isinstance(e, bool): ctx._add(e)
    PI = frac_of_float(math.pi)
    ctx._add(z3.And(th.n >= 0, th.n <= RV(PI)))
    self.base.append((th, x, s))
    return th

  def cos(self, x):
    r = self.cs(x)
    if r is None:
      return math.cos(x)
    return r[0]

  def sin(self, x):
    r = self.cs(x)
    if r is None:
      return math.sin(x)
    return r[1]


class SymSum:
  pass


# ---------------------------------------------------------------------------
# vacuity guard for stub facts: every fact must hold at the true numeric values
# ---------------------------------------------------------------------------
def _feval(e, env):
  """float / bool value of a z3 term under env (name -> float); raises KeyError on unknown symbols"""
  if z3.is_rational_value(e): return e.numerator_as_long() / e.denominator_as_long()
  if z3.is_int_value(e): return float(e.as_long())
  if z3.is_true(e): return True
  if z3.is_false(e): return False
  k = e.decl().kind()
  if e.num_args() == 0: return env[e.decl().name()]
  a = [_feval(c, env) for c in e.children()]
  if k == z3.Z3_OP_ADD: return sum(a)
  if k == z3.Z3_OP_MUL:
    r = 1.0
    for v in a: r *= v
    return r
  if k == z3.Z3_OP_SUB: return a[0] - sum(a[1:])
  if k == z3.Z3_OP_UMINUS: return -a[0]
  if k == z3.Z3_OP_DIV: return a[0] / a[1]
  if k == z3.Z3_OP_POWER: return a[0] ** a[1]
  if k == z3.Z3_OP_TO_REAL: return a[0]
  T = 1e-9
  if k == z3.Z3_OP_EQ: return abs(a[0] - a[1]) <= T * max(1.0, abs(a[0]), abs(a[1])) if not isinstance(a[0], bool) else a[0] == a[1]
  if k == z3.Z3_OP_DISTINCT: return abs(a[0] - a[1]) > T
  if k == z3.Z3_OP_LE: return a[0] <= a[1] + T
  if k == z3.Z3_OP_GE: return a[0] >= a[1] - T
  if k == z3.Z3_OP_LT: return a[0] < a[1] + T
  if k == z3.Z3_OP_GT: return a[0] > a[1] - T
  if k == z3.Z3_OP_NOT: return not a[0]
  if k == z3.Z3_OP_AND: return all(a)
  if k == z3.Z3_OP_OR: return any(a)
  if k == z3.Z3_OP_IMPLIES: return (not a[0]) or a[1]
  raise KeyError("operator %s" % e.decl().name())


def check_facts_numerically(ctx, env):
  """Every path-condition conjunct that only mentions symbols of env must be true there.  -> list of failures"""
  bad = []
  for e, _ in ctx.pc:
    try:
      ok = _feval(e, env)
    except KeyError:
      continue
    if not ok: bad.append(str(e)[:200])
  return bad
