"""IEEE-754 leg: concolic execution of the real code on binary64 proxies, path conditions decided by z3's FP theory.

Everything else in symrun reads numbers as exact reals.  A few verdicts of the library, however, are decided by ONE
rounding error (is a reflection coefficient exactly -1 or 0.9999999999999999?).  For those this module runs the real
functions on `FP` proxies that carry a concrete float AND the z3 FloatingPoint term that computed it (round to nearest
even, the semantics of CPython floats):

* every place where the interpreter needs a truth value follows the concrete value and records the branch condition as
  an FP formula;
* after a run, each recorded branch is negated in turn (`prefix taken so far AND NOT cond`, plus the input class) and
  handed to z3 (QF_FP, bit-blasted): `sat` gives a new concrete input that drives the code down the other side, `unsat`
  closes that side for EVERY double of the input class, `unknown` makes the result inconclusive;
* when no open side is left, the set of explored paths covers the whole input class, and the property (a predicate of
  the path's concrete result, which is constant along a path) holds for all of it or fails with a concrete double that
  is replayed natively (plain floats, no proxies) before it is reported.

Modelling notes: `x ** 2` is one correctly rounded multiplication (what CPython's pow gives for the exponent 2 on the
platforms checked by the native replay); integers mixing with proxies must be exactly representable.
"""
import time
import z3

F64 = z3.Float64()
RNE = z3.RNE()


class Unsupported(BaseException):
  pass


class Run:
  cur = None
  def __init__(self):
    self.trace = []            # (z3 Bool, value taken)


def _lift(x):
  if isinstance(x, FP): return x
  if isinstance(x, bool): x = int(x)
  if isinstance(x, int):
    if float(x) != x: raise Unsupported("integer %r is not a double" % x)
    return FP(float(x), z3.FPVal(float(x), F64))
  if isinstance(x, float):
    return FP(x, z3.FPVal(x, F64))
  return None


class FPBool:
  def __init__(self, v, e): self.v, self.e = bool(v), e
  def __bool__(self):
    if Run.cur is not None: Run.cur.trace.append((self.e, self.v))
    return self.v
  def __invert__(self): return FPBool(not self.v, z3.Not(self.e))


class FP:
  """binary64 value + the z3 term that produced it"""
  __slots__ = ("v", "t")
  def __init__(self, v, t): self.v, self.t = float(v), t
  def _bin(self, o, pyop, zop, swap=False):
    o = _lift(o)
    if o is None: return NotImplemented
    a, b = (o, self) if swap else (self, o)
    try:
      v = pyop(a.v, b.v)
    except ZeroDivisionError:
      # Python raises where IEEE gives inf/nan: the branch "divisor is zero" is part of the path
      FPBool(True, z3.fpIsZero(b.t)).__bool__()
      raise
    if pyop is _div:
      FPBool(False, z3.fpIsZero(b.t)).__bool__()
    return FP(v, zop(RNE, a.t, b.t))
  def __add__(s, o): return s._bin(o, lambda a, b: a + b, z3.fpAdd)
  def __radd__(s, o): return s._bin(o, lambda a, b: a + b, z3.fpAdd, True)
  def __sub__(s, o): return s._bin(o, lambda a, b: a - b, z3.fpSub)
  def __rsub__(s, o): return s._bin(o, lambda a, b: a - b, z3.fpSub, True)
  def __mul__(s, o): return s._bin(o, lambda a, b: a * b, z3.fpMul)
  def __rmul__(s, o): return s._bin(o, lambda a, b: a * b, z3.fpMul, True)
  def __truediv__(s, o): return s._bin(o, _div, z3.fpDiv)
  def __rtruediv__(s, o): return s._bin(o, _div, z3.fpDiv, True)
  def __neg__(s): return FP(-s.v, z3.fpNeg(s.t))
  def __pos__(s): return s
  def __abs__(s): return FP(abs(s.v), z3.fpAbs(s.t))
  def __pow__(s, n):
    if isinstance(n, FP) or not isinstance(n, int) or isinstance(n, bool) or not 0 <= n <= 3:
      raise Unsupported("power %r of a binary64 proxy" % (n,))
    if n == 0: return _lift(1.0)
    r = s
    for _ in range(n - 1): r = r * s
    if r.v != s.v ** n: raise Unsupported("pow(x, %d) is not the rounded repeated product on this platform" % n)
    return r
  def _cmp(s, o, pyop, zop):
    o = _lift(o)
    if o is None: return NotImplemented
    return FPBool(pyop(s.v, o.v), zop(s.t, o.t))
  def __eq__(s, o): return s._cmp(o, lambda a, b: a == b, z3.fpEQ)
  def __ne__(s, o):
    r = s._cmp(o, lambda a, b: a == b, z3.fpEQ)
    return r if r is NotImplemented else ~r
  def __lt__(s, o): return s._cmp(o, lambda a, b: a < b, z3.fpLT)
  def __le__(s, o): return s._cmp(o, lambda a, b: a <= b, z3.fpLEQ)
  def __gt__(s, o): return s._cmp(o, lambda a, b: a > b, z3.fpGT)
  def __ge__(s, o): return s._cmp(o, lambda a, b: a >= b, z3.fpGEQ)
  def __bool__(s): return bool(~FPBool(s.v == 0.0, z3.fpIsZero(s.t)))
  def __hash__(s): raise Unsupported("hash() of a binary64 proxy")
  def __float__(s): raise Unsupported("float() of a binary64 proxy (the term would be lost)")
  def __repr__(s): return "FP(%r)" % s.v
  __str__ = __repr__
  def __format__(s, spec): return format(s.v, spec)


def _div(a, b): return a / b


def dyadic(name, bits, emin, emax, signed=True):
  """z3 term + constraints: a non-zero double with at most `bits` significant bits and binary exponent in [emin, emax]
  (value = 1.f * 2**e) - every such number is exactly representable and so are short sums/products.  The double is built
  from its few free bits (sign, exponent field, leading fraction bits), which is all the solver has to search."""
  sign = z3.BitVec(name + "!s", 1); expo = z3.BitVec(name + "!e", 11); frac = z3.BitVec(name + "!f", bits - 1)
  pieces = [sign, expo, frac] + ([z3.BitVecVal(0, 52 - (bits - 1))] if bits - 1 < 52 else [])
  x = z3.fpBVToFP(z3.Concat(*pieces), F64)
  cons = [z3.UGE(expo, 1023 + emin), z3.ULE(expo, 1023 + emax)]
  if not signed: cons.append(sign == 0)
  return x, cons


def _bits_of(term_name, model, ctx=None):
  """the double a model assigns to the input built by dyadic(term_name, ...)"""
  import struct
  def val(n, w):
    c = z3.BitVec(n, w, ctx) if ctx is not None else z3.BitVec(n, w)
    return model.eval(c, model_completion=True).as_long()
  # the width of the fraction piece is not known here: read it from the model's declarations
  fw = None
  for d in model.decls():
    if d.name() == term_name + "!f": fw = d.range().size()
  s_ = val(term_name + "!s", 1); e_ = val(term_name + "!e", 11); f_ = val(term_name + "!f", fw) if fw else 0
  bits = (s_ << 63) | (e_ << 52) | (f_ << (52 - fw) if fw else 0)
  return struct.unpack("<d", struct.pack("<Q", bits))[0]


def _solve_one(job):
  """One branch negation.  Back end: the cvc5 binary when present (it decided in seconds the division-heavy queries on
  which z3's bit-blaster ran for minutes), z3 otherwise; `unknown` / errors are inconclusive."""
  import os, re, shutil, struct, subprocess, tempfile
  i, smt2, names, query_s = job
  t0 = time.time()
  exe = shutil.which("cvc5")
  if exe:
    decls = re.findall(r"\(declare-fun (\S+) \(\) \(_ BitVec (\d+)\)\)", smt2)
    body = smt2.replace("(check-sat)", "")
    text = "(set-logic QF_BVFP)\n(set-option :produce-models true)\n" + body + "\n(check-sat)\n"
    if decls: text += "(get-value (%s))\n" % " ".join(d for d, _ in decls)
    fd, path = tempfile.mkstemp(suffix=".smt2"); os.close(fd)
    try:
      with open(path, "w") as f: f.write(text)
      p = subprocess.run([exe, "--tlimit=%d" % int(query_s * 1000), path], capture_output=True, text=True, timeout=query_s + 30)
      outp = p.stdout.strip()
    except subprocess.TimeoutExpired:
      outp = "unknown"
    finally:
      os.unlink(path)
    first = (outp.splitlines() or ["unknown"])[0].strip()
    if first == "unsat": return "unsat", None, time.time() - t0
    if first == "sat":
      vals = dict(re.findall(r"([A-Za-z_][\w!]*) #b([01]+)", outp))
      new = {}
      for n in names:
        s_, e_, f_ = vals.get(n + "!s", "0"), vals.get(n + "!e", "0" * 11), vals.get(n + "!f", "")
        bits = int((s_ + e_ + f_).ljust(64, "0"), 2)
        new[n] = struct.unpack("<d", struct.pack("<Q", bits))[0]
      return "sat", new, time.time() - t0
    if "error" not in outp.lower():
      return "unknown", None, time.time() - t0
    # cvc5 could not read the query: fall through to z3
  ctx = z3.Context()
  sol = z3.Solver(ctx=ctx); sol.set("timeout", int(query_s * 1000))
  sol.from_string(smt2)
  r = str(sol.check())
  new = None
  if r == "sat":
    m = sol.model(); new = {n: _bits_of(n, m, ctx) for n in names}
  return r, new, time.time() - t0


def _solve_all(jobs, procs):
  if not jobs: return []
  if procs <= 1 or len(jobs) == 1: return [_solve_one(j) for j in jobs]
  import multiprocessing as mp
  with mp.get_context("fork").Pool(min(procs, len(jobs))) as pool:
    return pool.map(_solve_one, jobs, chunksize=1)


def explore(run_with, inputs, cons, seeds, check, query_s=120, max_runs=24, log=None, procs=8):
  """run_with(dict name -> FP) -> result (any Python value, constant along a path).
  inputs: dict name -> z3 FP constant; cons: constraints of the input class; seeds: list of dict name -> float.
  check(result, values) -> None or a string describing the violation.
  -> dict(paths, queries, violations, inconclusive, solver_s)"""
  out = {"paths": 0, "queries": {"sat": 0, "unsat": 0, "unknown": 0}, "violations": [], "inconclusive": [], "solver_s": 0.0,
         "runs": []}
  seen = set()
  closed = set()           # (prefix signature, index) already negated
  work = [dict(s) for s in seeds]
  while work and out["paths"] < max_runs:
    vals = work.pop(0)
    run = Run(); Run.cur = run
    try:
      args = {n: FP(vals[n], inputs[n]) for n in inputs}
      try:
        result = run_with(args)
      except Unsupported as u:
        out["inconclusive"].append({"clause": "engine", "why": "unsupported: %s" % u, "inputs": vals}); continue
    finally:
      Run.cur = None
    sig = tuple((str(e), v) for e, v in run.trace)
    if sig in seen: continue
    seen.add(sig)
    out["paths"] += 1
    bad = check(result, vals)
    out["runs"].append({"inputs": dict(vals), "result": repr(result), "branches": len(run.trace)})
    if bad: out["violations"].append({"inputs": dict(vals), "result": repr(result), "what": bad})
    # negate every branch whose other side has not been asked for yet; the queries of one path are independent and
    # are solved side by side (each in its own process: z3 contexts are not shared)
    jobs = []
    for i in range(len(run.trace)):
      key = (sig[:i], str(run.trace[i][0]))
      if key in closed: continue
      closed.add(key)
      sol = z3.Solver()
      for c in cons: sol.add(c)
      for e, v in run.trace[:i]: sol.add(e if v else z3.Not(e))
      e, v = run.trace[i]
      sol.add(z3.Not(e) if v else e)
      jobs.append((i, sol.to_smt2(), sorted(inputs), query_s))
    results = _solve_all(jobs, procs)
    for (i, _, _, _), (r, new, dt) in zip(jobs, results):
      out["solver_s"] += dt
      out["queries"][r if r in out["queries"] else "unknown"] += 1
      if log: log("   fp query: branch %d/%d of path %d -> %s (%.1f s)" % (i + 1, len(run.trace), out["paths"], r, dt))
      if r == "sat":
        work.append(new)
      elif r != "unsat":
        out["inconclusive"].append({"clause": "engine", "why": "solver %s on the negation of branch %d" % (r, i), "inputs": vals})
  if work:
    out["inconclusive"].append({"clause": "engine", "why": "run cap %d reached with %d inputs pending" % (max_runs, len(work))})
  return out
