"""symrun core: decision-prefix-replay symbolic execution of real Python code.

A *harness* is ``fn(ctx, cfg)``.  It creates symbolic inputs through ``ctx``,
installs assumptions, calls the repository's real functions on the proxies and
states claims with ``ctx.prove``.  ``explore`` runs it once per feasible path;
every ``ctx.prove`` issues the query  path-condition AND NOT claim  to a fresh
solver.  A ``sat`` answer is turned into concrete inputs and the *same harness*
is re-run natively (ConcreteCtx: plain int/Fraction/float inputs, no proxies,
claims evaluated by Python) - only a reproduced failure is a violation.
"""
import itertools
import math
import os
import time
import traceback
from fractions import Fraction

import z3

import symrun_reg
from .nums import (Sym, SymInt, SymBool, SymComplex, SymElem, ConcElem, ExactInt,
                   Unsupported, PathAbort, And, Or, Not, _bterm, same, RV)

TOL = 1e-7


class EngineError(Exception):
  """Engine-level inconsistency (non-reproducing model, twin unsat...)."""


# --------------------------------------------------------------------------
# model access
# --------------------------------------------------------------------------
def _num_to_fraction(v):
  if z3.is_int_value(v):
    return Fraction(v.as_long())
  if z3.is_rational_value(v):
    return Fraction(v.numerator_as_long(), v.denominator_as_long())
  if z3.is_algebraic_value(v):
    a = v.approx(30)
    return Fraction(a.numerator_as_long(), a.denominator_as_long())
  raise EngineError("model value is not numeric: %s" % v)


def model_value(model, term):
  if isinstance(model, dict):        # name -> Fraction: substitute and simplify
    subs = []
    for name, (const, val) in model.items():
      if val is None or isinstance(val, str): continue
      subs.append((const, z3.IntVal(int(val)) if const.sort() == z3.IntSort()
                   else RV(Fraction(val))))
    t = z3.simplify(z3.substitute(term, *subs)) if subs else z3.simplify(term)
    return _num_to_fraction(t)
  v = model.eval(term, model_completion=True)
  return _num_to_fraction(v)


_CLS_CACHE = {}
_VARS_CACHE = {}


def vars_of(expr):
  """names of the uninterpreted constants occurring in expr"""
  k = expr.get_id()
  r = _VARS_CACHE.get(k)
  if r is not None: return r[1]
  out = set(); seen = set(); stack = [expr]
  while stack:
    e = stack.pop()
    i = e.get_id()
    if i in seen: continue
    seen.add(i)
    if z3.is_app(e):
      if e.num_args() == 0:
        if e.decl().kind() == z3.Z3_OP_UNINTERPRETED: out.add(e.decl().name())
      else:
        stack.extend(e.children())
  if len(_VARS_CACHE) > 50000: _VARS_CACHE.clear()
  _VARS_CACHE[k] = (expr, frozenset(out))
  return _VARS_CACHE[k][1]



def classify(expr):
  """-> frozenset of {'int','real','uf'} describing the symbols of expr."""
  k = expr.get_id()
  r = _CLS_CACHE.get(k)
  if r is not None:
    return r[1]
  seen = set()
  out = set()
  stack = [expr]
  while stack:
    e = stack.pop()
    i = e.get_id()
    if i in seen: continue
    seen.add(i)
    if z3.is_app(e):
      if e.num_args() == 0:
        if e.decl().kind() == z3.Z3_OP_UNINTERPRETED:
          s = e.sort()
          if s == z3.IntSort(): out.add("int")
          elif s == z3.RealSort(): out.add("real")
          else: out.add("uf")
      else:
        dk = e.decl().kind()
        if dk == z3.Z3_OP_UNINTERPRETED: out.add("uf")
        elif dk in (z3.Z3_OP_TO_INT, z3.Z3_OP_IS_INT, z3.Z3_OP_IDIV, z3.Z3_OP_MOD,
                    z3.Z3_OP_REM): out.add("int")
        stack.extend(e.children())
    else:
      out.add("uf")
  r = frozenset(out)
  if len(_CLS_CACHE) > 100000: _CLS_CACHE.clear()
  _CLS_CACHE[k] = (expr, r)      # holding the AST keeps its id from being recycled while cached
  return r


# --------------------------------------------------------------------------
# statistics shared by all paths of a task
# --------------------------------------------------------------------------
class Stats:
  def __init__(self):
    self.q = {"sat": 0, "unsat": 0, "unknown": 0}
    self.solver_s = 0.0
    self.max_q = 0.0
    self.dumped = []
    self.paths = 0
    self.decisions = 0
    self.obligations = 0
    self.discharged = 0
    self.witnesses = 0
    self.witness_skipped = 0
    self.samples = []
    self.violations = []
    self.inconclusive = []
    self.errors = []
    self.excluded_paths = 0
    self.maybe_infeasible = 0
    self.generic_disagreements = 0

  def merge(self, o):
    for k in self.q: self.q[k] += o.q[k]
    for a in ("solver_s", "paths", "decisions", "obligations", "discharged",
              "witnesses", "witness_skipped", "excluded_paths", "maybe_infeasible"):
      setattr(self, a, getattr(self, a) + getattr(o, a))
    self.samples.extend(o.samples[:2])
    self.violations.extend(o.violations)
    self.inconclusive.extend(o.inconclusive)
    self.errors.extend(o.errors)


# --------------------------------------------------------------------------
# symbolic context
# --------------------------------------------------------------------------
class Ctx:
  cur = None
  mode = "sym"

  def __init__(self, prefix, stats, caps):
    self.prefix = prefix            # list of dict(val, alt, v)
    self.pos = 0
    self.pc = []                    # list of (expr, cls)
    self.pc_ids = {}
    self.stats = stats
    self.caps = caps
    self.timeout_ms = int(caps.get("query_s", 20) * 1000)
    self.vars = {}                  # name -> (kind, const)
    self.bound = {}                 # z3 id of Int const -> int
    self.models = {}                # class -> model valid for current pc
    self.mixed = False
    self.rpow_hook = None
    self.sqrt_hook = None
    self.nfresh = 0
    self.observations = []
    self.claims = []                # (clause, term)
    self.maybe_infeasible = False
    self.elem_consts = {}
    self.excluded = False
    symrun_reg.R.clear()
    self.nreg = 0
    self.render_mode = caps.get("render", "atom")

  # ---- variables -----------------------------------------------------
  def real(self, name, lo=None, hi=None, lo_open=False, hi_open=False, nonzero=False):
    c = z3.Real(name)
    self.vars[name] = ("real", c)
    s = Sym(c)
    if lo is not None:
      self._add(c > RV(Fraction(lo)) if lo_open else c >= RV(Fraction(lo)))
    if hi is not None:
      self._add(c < RV(Fraction(hi)) if hi_open else c <= RV(Fraction(hi)))
    if nonzero:
      self._add(c != 0)
    return s

  def reals(self, prefix, n, **kw):
    return [self.real("%s%d" % (prefix, i), **kw) for i in range(n)]

  def int(self, name, lo, hi):
    c = z3.Int(name)
    self.vars[name] = ("int", c)
    self._add(z3.And(c >= lo, c <= hi))
    self.__dict__.setdefault("int_ranges", {})[name] = (int(lo), int(hi))
    return SymInt(c)

  def split(self, name, lo, hi):
    """Fresh integer in [lo, hi], case-split into a concrete ExactInt on each path.  The variable is new and
    only range-constrained, so every value is feasible by construction: no feasibility query is needed (the
    equality still enters the path condition and the model)."""
    c = z3.Int(name)
    self.vars[name] = ("int", c)
    if lo > hi: raise PathAbort("empty range")
    if self.pos < len(self.prefix):
      e = self.prefix[self.pos]
      if e.get("kind") != "enum": raise EngineError("prefix desynchronised (expected enum)")
      v = e["v"]
    else:
      v = lo
      self.prefix.append({"kind": "enum", "val": True, "alt": lo < hi, "v": lo, "hi": hi})
      self.stats.decisions += 1
    self.pos += 1
    self._add(c == v)
    self.bound[c.get_id()] = v
    return ExactInt(v)

  def elem(self, name):
    c = z3.Const(name, SymElem.SORT)
    self.vars[name] = ("elem", c)
    return SymElem(c)

  def elems(self, prefix, n):
    return [self.elem("%s%d" % (prefix, i)) for i in range(n)]

  def distinct(self, elems):
    if len(elems) > 1: self._add(z3.Distinct(*[e.t for e in elems]))

  def elem_const(self, o):
    """A Python constant meeting a SymElem: one Elem constant per value."""
    k = (type(o).__name__, repr(o))
    if k not in self.elem_consts:
      self.elem_consts[k] = SymElem(z3.Const("k!%s!%s" % k, SymElem.SORT))
    return self.elem_consts[k]

  def fresh_real(self, tag="t"):
    self.nfresh += 1
    name = "%s!%d" % (tag, self.nfresh)
    c = z3.Real(name)
    self.vars[name] = ("aux", c)
    return Sym(c)

  def fresh_int(self, tag="k"):
    self.nfresh += 1
    name = "%s!%d" % (tag, self.nfresh)
    c = z3.Int(name)
    self.vars[name] = ("aux", c)
    return c

  def choice(self, name, options):
    """Case split among a finite list of Python objects (index is a fresh symbolic integer)."""
    return options[self.split(name, 0, len(options) - 1)]

  # ---- path condition ------------------------------------------------
  def _add(self, expr):
    if isinstance(expr, bool):
      if not expr: raise PathAbort("contradictory stub fact")
      return
    expr = z3.simplify(expr)
    if z3.is_true(expr): return
    i = expr.get_id()
    if i in self.pc_ids: return
    cls = classify(expr)
    self.pc_ids[i] = True
    self.pc.append((expr, cls))
    if "uf" in cls or ("int" in cls and "real" in cls):
      self.mixed = True
    # keep cached models only if they still satisfy the new constraint
    for k in list(self.models):
      m = self.models[k]
      try:
        ok = z3.is_true(m.eval(expr, model_completion=True))
      except z3.Z3Exception:
        ok = False
      if not ok: del self.models[k]

  def assume(self, b):
    if isinstance(b, (bool, int)) and not isinstance(b, SymBool):
      if not b:
        raise PathAbort("assumption false")
      return
    t = _bterm(b)
    r, _ = self.check([z3.simplify(t)])
    if r == "unsat":
      raise PathAbort("assumption infeasible on this path")
    self._add(t)

  def _qclass(self, extra):
    if self.mixed: return "all"
    c = set()
    for e in extra: c |= classify(e)
    if "uf" in c or ("int" in c and "real" in c): return "all"
    if "int" in c: return "int"
    return "real"

  def check(self, extra=(), want_model=True, timeout_ms=None, cls=None):
    extra = [e for e in extra]
    qc = cls or self._qclass(extra)
    if qc == "all":
      cons = [e for e, _ in self.pc]
      sol = z3.Solver()
    elif qc == "int":
      cons = [e for e, c in self.pc if "int" in c]
      sol = z3.Solver()
    else:
      cons = [e for e, c in self.pc if "int" not in c]
      sol = z3.Tactic("qfnra-nlsat").solver() if self.caps.get("nlsat", True) else z3.Solver()
    sol.set("timeout", timeout_ms or self.timeout_ms)
    for e in cons: sol.add(e)
    for e in extra: sol.add(e)
    t = time.time()
    try:
      r = str(sol.check())
    except z3.Z3Exception as ex:
      r = "unknown"
    dt = time.time() - t
    dq = self.caps.get("dump_queries")
    if dq and r in ("sat", "unsat") and len(self.stats.dumped) < dq:
      # deterministic thinning: roughly every 97th decided query of the task
      n = self.stats.q["sat"] + self.stats.q["unsat"]
      if n % 97 == 3 or (r == "unsat" and n % 41 == 7):
        try:
          self.stats.dumped.append((r, sol.to_smt2()))
        except z3.Z3Exception:
          pass
    self.stats.solver_s += dt
    if dt > self.stats.max_q: self.stats.max_q = dt
    self.stats.q[r] += 1
    m = None
    if r == "sat" and want_model:
      m = sol.model()
      if not extra:
        self.models[qc] = m
    return r, m

  def _cached_eval(self, expr):
    """True/False if a cached model of the pc decides expr, else None."""
    qc = self._qclass([expr])
    m = self.models.get(qc)
    if m is None: return None
    try:
      v = m.eval(expr, model_completion=True)
    except z3.Z3Exception:
      return None
    if z3.is_true(v): return True
    if z3.is_false(v): return False
    return None

  def decide(self, expr, v=None):
    expr = z3.simplify(expr)
    if z3.is_true(expr): return True
    if z3.is_false(expr): return False
    i = expr.get_id()
    if i in self.pc_ids: return True
    ne = z3.simplify(z3.Not(expr))
    if ne.get_id() in self.pc_ids: return False
    if self.pos < len(self.prefix):
      if self.prefix[self.pos].get("kind") == "enum":
        raise EngineError("prefix desynchronised (boolean decision where an enum split was recorded)")
      val = self.prefix[self.pos]["val"]
    else:
      known = self._cached_eval(expr)
      rt = "sat" if known is True else None
      rf = "sat" if known is False else None
      if rt is None: rt, mt = self.check([expr])
      if rf is None: rf, mf = self.check([ne])
      if rt == "unknown" or rf == "unknown":
        self.maybe_infeasible = True
      ft, ff = rt != "unsat", rf != "unsat"
      if ft and ff:
        val = True; self.prefix.append({"val": True, "alt": True, "v": v})
      elif ft:
        val = True; self.prefix.append({"val": True, "alt": False, "v": v})
      elif ff:
        val = False; self.prefix.append({"val": False, "alt": False, "v": v})
      else:
        raise PathAbort("infeasible path")
      self.stats.decisions += 1
    self.pos += 1
    self._add(expr if val else ne)
    return val

  def bound_of(self, iterm):
    if not self.bound: return None
    return self.bound.get(iterm.get_id())

  def concretize(self, iterm, cap=None):
    """Solver-driven case split of an integer term over its feasible values."""
    iterm = z3.simplify(iterm)
    if z3.is_int_value(iterm): return iterm.as_long()
    cap = cap or self.caps.get("int_split", 300)
    for attempt in range(cap):
      if self.pos < len(self.prefix):
        v = self.prefix[self.pos]["v"]
        if v is None: raise EngineError("prefix desynchronised (expected value split)")
      else:
        v = None
        if attempt < 2 and z3.is_const(iterm) and iterm.decl().kind() == z3.Z3_OP_UNINTERPRETED:
          # boundary values first for a declared input (a byte, a count): its largest, then its smallest value - table
          # look-ups, ranges and slices go wrong at their ends.  decide() below settles whether the value is feasible.
          rng = self.__dict__.get("int_ranges", {}).get(iterm.decl().name())
          if rng is not None and rng[1] - rng[0] >= 8: v = rng[1] if attempt == 0 else rng[0]
        if v is None:
          qc = self._qclass([iterm == 0])
          m = self.models.get(qc)
          if m is None:
            r, m = self.check([], cls=qc)
            if r != "sat":
              raise Unsupported("no model for the path condition while splitting an integer (%s)" % r)
          v = m.eval(iterm, model_completion=True).as_long()
      if self.decide(iterm == v, v=v):
        if z3.is_const(iterm) and iterm.decl().kind() == z3.Z3_OP_UNINTERPRETED:
          self.bound[iterm.get_id()] = v
        return v
    raise Unsupported("integer split exceeded %d values: give the quantity a range" % cap)

  def floor_term(self, x):
    """SymInt q with q <= x < q+1 (kept symbolic)."""
    if isinstance(x, SymInt): return x
    if x.c is not None: return SymInt(c=math.floor(x.c))
    q = self.fresh_int("fl")
    qs = Sym(z3.ToReal(q))
    r = x - qs
    self._add(r._sgn() >= 0)
    self._add((r - 1)._sgn() < 0)
    return SymInt(q)

  def floor_of(self, x):
    q = self.floor_term(x)
    return q.__index__()

  def hash_of(self, x):
    """hash() of a symbolic real (a dict / set key, a memo-table lookup).  Equal values must hash equally:
    * when the path condition determines the value (one solver query), the hash is the hash of that number - the same
      as natively, so the proxy is found under a concrete key of equal value;
    * otherwise every undetermined proxy gets the same constant, so that lookups among symbolic keys fall through to
      `==`, which is a solver decision (both outcomes explored).  What this cannot see: an undetermined proxy colliding
      with a *concrete* key of equal value - the path witness (native run on the model values) is the check for that."""
    r, m = self.check([])
    if r == "sat" and m is not None:
      try:
        nv = _num_to_fraction(m.eval(x.n, model_completion=True)); dv = _num_to_fraction(m.eval(x.den(), model_completion=True))
        if dv != 0:
          val = nv / dv
          differ = x.n * z3.RealVal(str(dv)) != z3.RealVal(str(nv)) * x.den()
          r2, _ = self.check([differ], want_model=False)
          if r2 == "unsat":
            return hash(val)
      except (EngineError, z3.Z3Exception):
        pass
    self.symbolic_hash_used = True
    return 0x5EED0

  # ---- text ----------------------------------------------------------
  def _render_key(self, proxy):
    """str() of equal values is equal natively; for proxies "equal" is approximated by identical normal-form terms"""
    try:
      if isinstance(proxy, Sym):
        if proxy.c is not None: return ("c", str(proxy.c))
        return ("r", proxy.n.sexpr(), proxy.d.sexpr() if proxy.d is not None else "1", self.render_mode)
      if isinstance(proxy, SymInt): return ("i", proxy.iterm().sexpr())
      if isinstance(proxy, SymComplex): return ("z", self._render_key(proxy.re), self._render_key(proxy.im))
    except Exception:
      pass
    return None

  def render(self, proxy):
    key = self._render_key(proxy)
    memo = self.__dict__.setdefault("_rendered", {})
    if key is not None and key in memo: return memo[key]
    text = self._render_new(proxy)
    if key is not None: memo[key] = text
    return text

  def _render_new(self, proxy):
    self.nreg += 1
    k = self.nreg
    if self.render_mode == "ratio" and isinstance(proxy, Sym) and proxy.c is None \
       and proxy.d is not None:
      symrun_reg.R[k] = Sym(proxy.n)
      self.nreg += 1
      symrun_reg.R[self.nreg] = Sym(proxy.d)
      return "__import__('symrun_reg').R[%d]/__import__('symrun_reg').R[%d]" % (k, self.nreg)
    symrun_reg.R[k] = proxy
    return "__import__('symrun_reg').R[%d]" % k

  # ---- claims --------------------------------------------------------
  def eq(self, a, b):
    if isinstance(a, (SymElem,)) or isinstance(b, (SymElem,)):
      return same(a, b)
    if isinstance(a, (list, tuple)) and isinstance(b, (list, tuple)):
      if len(a) != len(b): return False
      return And(*[self.eq(x, y) for x, y in zip(a, b)]) if a else True
    r = (a == b)
    if r is NotImplemented: return False
    return r

  def close(self, a, b, tol=None):
    return self.eq(a, b)

  def le(self, a, b): return a <= b
  def lt(self, a, b): return a < b

  def is_int(self, x):
    """x (a Sym) is integer valued."""
    if isinstance(x, SymInt): return True
    if isinstance(x, Sym):
      if x.c is not None: return x.c.denominator == 1
      return SymBool(z3.IsInt(x.term()))
    return Fraction(x).denominator == 1

  def observe(self, label, value):
    self.observations.append((label, value))

  def apply(self, name, fn, *args):
    return SymElem(SymElem.fn(name, len(args))(*[SymElem.lift(a).t for a in args]))

  def exclude(self, why=""):
    """The path is outside the property's precondition (counted, not claimed)."""
    self.excluded = True
    raise PathAbort("excluded: " + why)

  def prove_native(self, claim, clause, detail=None):
    """A claim that only makes sense on native values (e.g. 'exact inputs give exact, not float, outputs'): skipped in
    the symbolic run, evaluated on every solver-chosen witness of every path; a failure there is a violation."""
    return True

  def prove(self, claim, clause, detail=None):
    st = self.stats
    st.obligations += 1
    if isinstance(claim, (list, tuple)):
      claim = And(*claim) if claim else True
    if isinstance(claim, (bool, int)) and not isinstance(claim, SymBool):
      if claim:
        st.discharged += 1
        return True
      r, m = self.check([])
      if r == "unsat":
        st.discharged += 1; return True
      # the claim does not depend on the inputs: prefer a model with non-degenerate (non-zero, distinct) inputs
      md = None
      try:
        opt = z3.Optimize(); opt.set("timeout", min(self.timeout_ms, 5000))
        for e, _ in self.pc: opt.add(e)
        vs = [c for k, (kind, c) in self.vars.items() if kind in ("int", "real")]
        for c in vs:
          for bad in (0, 1, -1): opt.add_soft(c != bad)
        rv = [z3.ToReal(c) if c.sort() == z3.IntSort() else c for c in vs]
        for a in range(len(rv)):
          for b in range(a):
            opt.add_soft(rv[a] != rv[b]); opt.add_soft(rv[a] != -rv[b])
        if str(opt.check()) == "sat": md = opt.model()
      except z3.Z3Exception:
        md = None
      self._failed(clause, detail, md if md is not None else (m if r == "sat" else None), "claim is the constant False")
      return False
    t = z3.simplify(_bterm(claim))
    if z3.is_true(t):
      st.discharged += 1
      return True
    neg = z3.simplify(z3.Not(t))
    r, m = self.check([neg])
    if r == "unsat":
      st.discharged += 1
      self.claims.append((clause, t))
      return True
    if r == "unknown":
      st.inconclusive.append({"clause": clause, "why": "solver unknown on obligation",
                              "detail": detail, "path": self.describe_path()})
      return None
    self._failed(clause, detail, m, str(t)[:300], extra=[neg])
    return False

  def _failed(self, clause, detail, model, what, extra=()):
    raise CandidateViolation(clause, detail, self.model_dict(model, extra=extra), what)

  def describe_path(self, maxlen=12):
    out = []
    for e, _ in self.pc[-maxlen:]:
      s = str(e).replace("\n", " ")
      out.append(s[:160])
    return out

  def model_dict(self, model=None, inputs_only=False, extra=(), generic=True):
    """name -> Fraction/int for every declared variable."""
    out = {}
    full = model
    if full is None and inputs_only:
      # witness over the harness inputs only: auxiliary (stub) variables are existential, drop what mentions them
      inputs = {n for n, (kind, c) in self.vars.items() if kind != "aux"}
      sol = z3.Solver(); sol.set("timeout", self.timeout_ms)
      for e, _ in self.pc:
        if vars_of(e) <= inputs: sol.add(e)
      if str(sol.check()) != "sat": return None
      full = sol.model()
      for name, (kind, c) in self.vars.items():
        if kind == "aux": continue
        v = full.eval(c, model_completion=True)
        if kind == "elem": out[name] = "E0"
        elif kind == "int": out[name] = int(_num_to_fraction(v))
        else:
          out[name] = _num_to_fraction(v)
          if z3.is_algebraic_value(v): out.setdefault("__inexact__", True)
      out["__inputs_only__"] = True
      return out
    if full is None:
      sol = z3.Solver() if (self.mixed or any("int" in c for _, c in self.pc)) \
            else z3.Tactic("qfnra-nlsat").solver()
      sol.set("timeout", self.timeout_ms)
      for e, _ in self.pc: sol.add(e)
      if str(sol.check()) != "sat": return None
      full = sol.model()
      # a path witness should be a *generic* point of the path: non-zero, not +-1, pairwise distinct inputs (a native
      # run on all-zero inputs agrees with almost anything).  One extra, short query; the plain model is the fall-back.
      try:
        vs = [c for k, (kind, c) in self.vars.items() if kind in ("int", "real")][:14]
        # (not when a contract stub introduced existential variables: their model values are not the true exp/sqrt/cos
        # values, and generic inputs would make every observation depend on them)
        self.last_model_generic = False
        if generic and vs and not any(kind == "aux" for kind, _ in self.vars.values()):
          gen = z3.Solver() if (self.mixed or any("int" in c for _, c in self.pc)) else z3.Tactic("qfnra-nlsat").solver()
          gen.set("timeout", 1500)
          for e, _ in self.pc: gen.add(e)
          rv = [z3.ToReal(c) if c.sort() == z3.IntSort() else c for c in vs]
          for c in rv:
            gen.add(c != 0, c != 1, c != -1)
          for a in range(len(rv)):
            for b in range(a): gen.add(rv[a] != rv[b], rv[a] != -rv[b])
          if str(gen.check()) == "sat":
            full = gen.model(); self.last_model_generic = True
      except z3.Z3Exception:
        pass
    else:
      # the query model may be partial (class-restricted): complete it
      parts = [e for e, _ in self.pc]
      try:
        ok = all(z3.is_true(full.eval(e, model_completion=True)) for e in parts)
      except z3.Z3Exception:
        ok = False
      if not ok:
        sol = z3.Solver()
        sol.set("timeout", self.timeout_ms)
        for e in parts: sol.add(e)
        for e in extra: sol.add(e)          # e.g. the negated claim: the completed model must still violate it
        sol.push()
        for name, (kind, c) in self.vars.items():
          if kind in ("real", "int", "aux"):
            v = full.eval(c)
            if z3.is_int_value(v) or z3.is_rational_value(v):
              sol.add(c == v)
        if str(sol.check()) != "sat":
          sol.pop()                       # pins came from model completion: drop them
          if str(sol.check()) != "sat": return None
        full = sol.model()
    elem_classes = {}
    for name, (kind, c) in self.vars.items():
      v = full.eval(c, model_completion=True)
      if kind == "elem":
        key = str(v)
        elem_classes.setdefault(key, len(elem_classes))
        out[name] = "E%d" % elem_classes[key]
      elif kind == "int" or (kind == "aux" and c.sort() == z3.IntSort()):
        out[name] = int(_num_to_fraction(v))
      else:
        out[name] = _num_to_fraction(v)
        if z3.is_algebraic_value(v):
          out.setdefault("__inexact__", True)
    return out


class PathTimeout(BaseException):
  """The code under test did not come back within the per-path wall-time cap."""


def _alarm_handler(signum, frame):
  raise PathTimeout()


class _Watchdog:
  def __init__(self, seconds):
    self.s = seconds
  def __enter__(self):
    import signal
    try:
      self.old = signal.signal(signal.SIGALRM, _alarm_handler)
      signal.setitimer(signal.ITIMER_REAL, self.s)
      self.on = True
    except ValueError:        # not in the main thread
      self.on = False
    return self
  def __exit__(self, *a):
    import signal
    if self.on:
      signal.setitimer(signal.ITIMER_REAL, 0)
      signal.signal(signal.SIGALRM, self.old)
    return False


class CandidateViolation(BaseException):
  def __init__(self, clause, detail, model, what):
    self.clause, self.detail, self.model, self.what = clause, detail, model, what


# --------------------------------------------------------------------------
# concrete context: same harness, plain Python values
# --------------------------------------------------------------------------
class ClauseFailed(Exception):
  def __init__(self, clause, detail, native=False):
    Exception.__init__(self, "%s: %s" % (clause, detail))
    self.clause, self.detail, self.native = clause, detail, native


_ELEM_PRIMES = [Fraction(p) for p in (2, 3, 5, 7, 11, 13, 17, 19, 23, 29, 31, 37, 41,
                                      43, 47, 53, 59, 61, 67, 71, 73, 79, 83, 89, 97)]


class ConcreteCtx:
  mode = "concrete"

  def __init__(self, model, caps=None, floats=False):
    self.model = model
    self.caps = caps or {}
    self.floats = floats or bool(model.get("__inexact__"))
    self.failed = []
    self.observations = []
    self.excluded = False
    self.rpow_hook = None
    self.sqrt_hook = None
    self.checked = 0

  def _get(self, name, default=0):
    return self.model.get(name, default)

  def real(self, name, lo=None, hi=None, lo_open=False, hi_open=False, nonzero=False):
    v = self._get(name)
    if v == 0 and (nonzero or (lo is not None and (lo > 0 or (lo == 0 and lo_open)))
                   or (hi is not None and (hi < 0 or (hi == 0 and hi_open)))):
      raise EngineError("model lacks constrained variable %s" % name)
    v = Fraction(v)
    return float(v) if self.floats else v

  def reals(self, prefix, n, **kw):
    return [self.real("%s%d" % (prefix, i), **kw) for i in range(n)]

  def int(self, name, lo, hi):
    v = int(self._get(name, lo))
    return v

  split = int

  def elem(self, name):
    v = self._get(name, None)
    if v is None:
      return ConcElem(("free", name))          # unconstrained element: a fresh constant
    return ConcElem(("c", int(v[1:])))

  def elems(self, prefix, n):
    return [self.elem("%s%d" % (prefix, i)) for i in range(n)]

  def distinct(self, elems):
    if len(set(e.v for e in elems)) != len(elems): raise EngineError("model does not keep elements distinct")

  def choice(self, name, options):
    return options[int(self._get(name, 0))]

  def assume(self, b):
    if not b:
      raise EngineError("concrete inputs violate an assumption of the harness")

  def eq(self, a, b):
    if isinstance(a, (list, tuple)) and isinstance(b, (list, tuple)):
      return len(a) == len(b) and all(self.eq(x, y) for x, y in zip(a, b))
    if isinstance(a, (float, complex)) or isinstance(b, (float, complex)):
      if isinstance(a, (int, float, Fraction, complex)) and \
         isinstance(b, (int, float, Fraction, complex)):
        a = complex(a) if isinstance(a, complex) else float(a)
        b = complex(b) if isinstance(b, complex) else float(b)
        if a != a or b != b: return (a != a) and (b != b)
        return abs(a - b) <= TOL * max(1.0, abs(a), abs(b))
    return a == b

  def close(self, a, b, tol=TOL):
    a = complex(a) if isinstance(a, complex) else float(a)
    b = complex(b) if isinstance(b, complex) else float(b)
    return abs(a - b) <= tol * max(1.0, abs(a), abs(b))

  def le(self, a, b):
    if isinstance(a, float) or isinstance(b, float):
      return float(a) <= float(b) + TOL * max(1.0, abs(float(a)), abs(float(b)))
    return a <= b

  def lt(self, a, b):
    return a < b

  def is_int(self, x):
    if isinstance(x, float): return abs(x - round(x)) < 1e-9
    return Fraction(x).denominator == 1

  def observe(self, label, value):
    self.observations.append((label, value))

  def apply(self, name, fn, *args):
    if any(isinstance(a, ConcElem) for a in args):
      return ConcElem((name,) + tuple(ConcElem.lift(a).v for a in args))
    return fn(*args)

  def exclude(self, why=""):
    self.excluded = True
    raise PathAbort("excluded: " + why)

  def prove(self, claim, clause, detail=None, native=False):
    self.checked += 1
    if isinstance(claim, (list, tuple)):
      claim = all(bool(c) for c in claim)
    if not claim:
      self.failed.append((clause, detail))
      raise ClauseFailed(clause, detail, native)
    return True

  def prove_native(self, claim, clause, detail=None):
    return self.prove(claim, clause, detail, native=True)


def run_concrete(harness, cfg, model, caps=None, floats=False):
  """Run the harness natively.  -> dict(status, clause, detail, exc)"""
  ctx = ConcreteCtx(model, caps, floats)
  from symrun.stubs import HermeticPackage
  try:
    with _Watchdog((caps or {}).get("path_s", 90)), HermeticPackage():
      harness(ctx, cfg)
  except PathTimeout:
    return {"status": "failed", "clause": "termination", "ctx": ctx,
            "detail": "the real code did not come back within %s s on these inputs (endless loop?)"
                      % (caps or {}).get("path_s", 90)}
  except ClauseFailed as e:
    return {"status": "failed", "clause": e.clause, "detail": str(e.detail)[:500], "ctx": ctx, "native": e.native}
  except PathAbort:
    return {"status": "excluded", "ctx": ctx}
  except EngineError as e:
    return {"status": "engine", "detail": str(e), "ctx": ctx}
  except Exception as e:
    return {"status": "exception", "clause": "exception:" + type(e).__name__,
            "detail": "%s: %s" % (type(e).__name__, str(e)[:300]),
            "trace": traceback.format_exc()[-1500:], "ctx": ctx}
  return {"status": "ok", "ctx": ctx}


# --------------------------------------------------------------------------
# exploration of one (harness, cfg) task
# --------------------------------------------------------------------------
def _jsonable(x):
  if isinstance(x, dict): return {str(k): _jsonable(v) for k, v in x.items()}
  if isinstance(x, (list, tuple)): return [_jsonable(v) for v in x]
  if isinstance(x, Fraction): return str(x)
  if isinstance(x, (int, float, str, bool)) or x is None: return x
  return str(x)


def _obs_value(v, model):
  if isinstance(v, (Sym, SymInt, SymComplex)): return v.value(model)
  if isinstance(v, SymElem): return None
  if isinstance(v, (list, tuple)): return [_obs_value(x, model) for x in v]
  if isinstance(v, SymBool):
    raise EngineError("SymBool observation")
  return v


def _obs_equal(a, b):
  if a is None and isinstance(b, ConcElem): return True       # element observations: routing is proved, not compared
  if isinstance(a, (list, tuple)) and isinstance(b, (list, tuple, )):
    return len(a) == len(b) and all(_obs_equal(x, y) for x, y in zip(a, b))
  if isinstance(a, (list, tuple)) and len(a) == 2 and isinstance(b, (complex, float, int)) and \
     not isinstance(a[0], (list, tuple)):
    a = complex(float(a[0]), float(a[1]))
  if isinstance(a, (list, tuple)) and len(a) == 2 and isinstance(b, (complex, float, int)) and \
     not isinstance(a[0], (list, tuple)):
    a = complex(float(a[0]), float(a[1]))
  if isinstance(a, (float, complex)) or isinstance(b, (float, complex)):
    try:
      return abs(complex(a) - complex(b)) <= TOL * max(1.0, abs(complex(a)), abs(complex(b)))
    except TypeError:
      return False
  try:
    return a == b
  except Exception:
    return False


def _hermetic():
  from symrun.stubs import HermeticPackage
  return HermeticPackage()


def explore(harness, cfg, caps, hname="?"):
  stats = Stats()
  prefix = []
  max_paths = caps.get("max_paths", 5000)
  max_viol = caps.get("max_violations", 3)
  wit_every = caps.get("witness_every", 1)
  # the task budget is CPU time of this worker (a loaded machine must not turn a pass into "inconclusive");
  # the parent enforces a generous wall limit on top of it (cli.run_tasks)
  deadline = time.process_time() + caps.get("task_s", 3600)
  while True:
    ctx = Ctx(prefix, stats, caps)
    Ctx.cur = ctx
    cand = None
    uncaught = None
    aborted = False
    try:
      with _Watchdog(caps.get("path_s", 90)), _hermetic():
        harness(ctx, cfg)
    except PathAbort:
      aborted = True
    except PathTimeout:
      Ctx.cur = ctx
      try: md = ctx.model_dict()
      finally: Ctx.cur = None
      cand = CandidateViolation("termination", "path did not finish within %s s" % caps.get("path_s", 90), md,
                                "watchdog")
    except CandidateViolation as cv:
      cand = cv
    except Unsupported as u:
      stats.inconclusive.append({"clause": "engine", "why": "unsupported: %s" % u,
                                 "path": ctx.describe_path(),
                                 "trace": traceback.format_exc()[-800:]})
    except EngineError as e:
      stats.errors.append({"why": str(e), "path": ctx.describe_path()})
    except RecursionError as e:
      stats.errors.append({"why": "RecursionError", "path": ctx.describe_path()})
    except Exception as e:
      uncaught = e
      tb = traceback.format_exc()
    finally:
      Ctx.cur = None
    stats.paths += 1
    if ctx.excluded: stats.excluded_paths += 1
    if ctx.maybe_infeasible: stats.maybe_infeasible += 1

    if uncaught is not None:
      # an exception escaping from the code under test on a feasible path
      Ctx.cur = ctx
      try:
        md = ctx.model_dict()
      finally:
        Ctx.cur = None
      cand = CandidateViolation("exception:" + type(uncaught).__name__,
                                "%s: %s" % (type(uncaught).__name__, str(uncaught)[:300]),
                                md, tb[-1200:])

    if cand is not None and cand.clause == "termination":
      # the symbolic run of this path exceeded the per-path cap: a violation only if the native run hangs as well
      rep = run_concrete(harness, cfg, cand.model, caps) if cand.model is not None else {"status": "nomodel"}
      if rep["status"] == "failed" and rep.get("clause") == "termination":
        stats.violations.append({"harness": hname, "cfg": _jsonable(cfg), "clause": "termination", "sym_clause": "termination",
                                 "detail": rep.get("detail"), "what": "watchdog", "model": _jsonable(cand.model), "trace": None})
      else:
        stats.inconclusive.append({"clause": "engine", "why": "symbolic path exceeded the per-path cap of %s s (native run: %s)"
                                                        % (caps.get("path_s", 90), rep["status"]), "path": ctx.describe_path(4)})
      cand = None
    if cand is not None:
      if cand.model is None:
        if ctx.maybe_infeasible:
          stats.inconclusive.append({"clause": cand.clause, "why": "no model (path feasibility unknown)"})
        else:
          stats.errors.append({"why": "candidate violation without a model", "clause": cand.clause})
      else:
        rep = run_concrete(harness, cfg, cand.model, caps)
        if rep["status"] in ("failed", "exception") and (
            rep["clause"] == cand.clause or cand.clause.startswith("exception:")
            or rep["status"] == "failed"):
          stats.violations.append({"harness": hname, "cfg": _jsonable(cfg),
                                   "clause": rep["clause"], "sym_clause": cand.clause,
                                   "detail": rep.get("detail"), "what": cand.what,
                                   "model": _jsonable(cand.model),
                                   "trace": rep.get("trace")})
        elif cand.model.get("__inexact__") or ctx.maybe_infeasible:
          stats.inconclusive.append({"clause": cand.clause,
                                     "why": "counterexample with irrational/unknown-feasibility model did not reproduce",
                                     "model": _jsonable(cand.model)})
        else:
          stats.errors.append({"why": "counterexample did not reproduce on the real code "
                                      "(status %s %s)" % (rep["status"], rep.get("detail")),
                               "clause": cand.clause, "what": cand.what,
                               "model": _jsonable(cand.model), "cfg": _jsonable(cfg)})
    elif not aborted and uncaught is None and not ctx.excluded:
      # witness validation on this path
      if (stats.paths - 1) % wit_every == 0 and caps.get("witness", True):
        Ctx.cur = ctx
        try:
          md = ctx.model_dict(inputs_only=bool(caps.get("witness_inputs_only")))
        except Exception as e:
          md = None
        finally:
          Ctx.cur = None
        if md is None:
          if not ctx.maybe_infeasible:
            stats.errors.append({"why": "twin unsat: no model for a completed path",
                                 "path": ctx.describe_path()})
          stats.witness_skipped += 1
        elif md.get("__inexact__") and not caps.get("witness_floats", False):
          stats.witness_skipped += 1
        else:
          rep = run_concrete(harness, cfg, md, caps)
          if rep["status"] == "ok" and md.get("__inputs_only__"):
            stats.witnesses += 1
          elif rep["status"] == "ok":
            cobs = rep["ctx"].observations
            ok = len(cobs) == len(ctx.observations)
            bad = None
            if ok:
              for (l1, v1), (l2, v2) in zip(ctx.observations, cobs):
                try:
                  sv = _obs_value(v1, {n: (c, md.get(n)) for n, (k, c) in ctx.vars.items()})
                except EngineError as e:
                  sv = None
                if l1 != l2 or not _obs_equal(sv, v2):
                  ok = False; bad = (l1, str(sv)[:200], str(v2)[:200]); break
            if ok:
              stats.witnesses += 1
              if len(stats.samples) < 3 or (ctx.claims and not stats.samples[-1].get("claims_discharged")):
                stats.samples.append({"harness": hname, "cfg": _jsonable(cfg),
                                      "path_condition": ctx.describe_path(6),
                                      "witness": _jsonable({k: v for k, v in md.items()
                                                            if "!" not in k}),
                                      "claims_discharged": [c for c, _ in ctx.claims][:12],
                                      "example_obligation": ("pc AND NOT (%s)  ->  unsat" % str(ctx.claims[-1][1]).replace("\n", " ")[:400])
                                                            if ctx.claims else None,
                                      "verdict": "all obligations unsat; witness replayed natively"})
            else:
              # a GENERIC witness (non-zero, distinct inputs) may sit where the native float evaluation of the real code is
              # ill-conditioned; before calling it a mismatch the plain model of the path is tried as well.  The
              # disagreement at the generic point is kept in the evidence (counted, with a sample), not hidden.
              retried = False
              if getattr(ctx, "last_model_generic", False):
                Ctx.cur = ctx
                try: md2 = ctx.model_dict(generic=False)
                except Exception: md2 = None
                finally: Ctx.cur = None
                if md2 is not None:
                  rep2 = run_concrete(harness, cfg, md2, caps)
                  if rep2["status"] == "ok":
                    cobs2 = rep2["ctx"].observations
                    ok2 = len(cobs2) == len(ctx.observations)
                    if ok2:
                      for (l1, v1), (l2, v2) in zip(ctx.observations, cobs2):
                        try: sv = _obs_value(v1, {n: (c, md2.get(n)) for n, (k, c) in ctx.vars.items()})
                        except EngineError: sv = None
                        if l1 != l2 or not _obs_equal(sv, v2): ok2 = False; break
                    if ok2:
                      retried = True
                      stats.witnesses += 1
                      stats.maybe_infeasible += 0
                      stats.generic_disagreements = getattr(stats, "generic_disagreements", 0) + 1
              if not retried:
                stats.errors.append({"why": "witness mismatch between proxy run and native run",
                                     "bad": bad, "model": _jsonable(md), "cfg": _jsonable(cfg)})
          elif rep["status"] == "excluded":
            stats.witness_skipped += 1
          elif rep["status"] == "failed" and rep.get("native"):
            # a native-only clause failed on a solver-chosen witness: a real run of the real code, hence a violation
            stats.violations.append({"harness": hname, "cfg": _jsonable(cfg), "clause": rep["clause"],
                                     "sym_clause": "(native-only clause, evaluated on the path witness)",
                                     "detail": rep.get("detail"), "what": "native-only clause",
                                     "model": _jsonable(md), "trace": None})
          else:
            stats.errors.append({"why": "witness run disagrees with the solver verdict: %s %s"
                                        % (rep["status"], rep.get("detail")),
                                 "clause": rep.get("clause"), "trace": rep.get("trace"),
                                 "model": _jsonable(md), "cfg": _jsonable(cfg)})

    if len(stats.violations) >= max_viol: break
    if len(stats.errors) >= 5: break
    # backtrack
    del prefix[ctx.pos:]
    while prefix and not prefix[-1]["alt"]:
      prefix.pop()
    if not prefix: break
    if prefix[-1].get("kind") == "enum":
      e = prefix[-1]
      prefix[-1] = {"kind": "enum", "val": True, "alt": e["v"] + 1 < e["hi"], "v": e["v"] + 1, "hi": e["hi"]}
    else:
      prefix[-1] = {"val": not prefix[-1]["val"], "alt": False, "v": prefix[-1]["v"]}
    if stats.paths >= max_paths:
      stats.inconclusive.append({"clause": "engine", "why": "path cap %d reached" % max_paths})
      break
    if time.process_time() > deadline:
      stats.inconclusive.append({"clause": "engine", "why": "task CPU-time cap reached after %d paths" % stats.paths})
      break
  return stats
